(** C30 — File value hashes track the filesystem.
    Statements only; proofs are in Proofs/FileValBase.v, Proofs/FileValHash.v.
    [H] is the hash function (SHA-512 truncated to 40 hex digits): a universally quantified
    parameter; only the refutations assume that it has no collisions.
    [v : variant] records, per repair site, whether the code is as shipped or repaired
    (extracted from the source by translate/tr_file.py; see Gen/C30Gen.v). *)
From Coq Require Import List ZArith Ascii Bool Permutation.
From RV Require Import Base.Decimal Base.Lit Model.Bencode Model.FileVal Proofs.FileValBase Proofs.FileValHash.
Import ListNotations.
Open Scope list_scope.

(** 1. After a File, Dir (or their immutable / content-hashed variants) is written, appended to,
    copied to, staged or unstaged through redun -- any state, any operation, any mtime the OS
    assigns -- [obj.hash] equals the freshly computed hash of the filesystem as it is now.
    For directory copies this needs the repaired Dir.copy_to (first disjunct); staging between
    two values with the same path copies nothing and is excluded ([stage_noop]). *)
Theorem C30_hash_fresh_after_write_copy_stage : forall H v st o st' r i,
  dir_copy_updates v = true \/ is_dir_copy o = false ->
  stage_noop st o = false -> refreshed o = Some i ->
  step H v st o = ROk st' r -> observed_hash H v st' i = fresh_hash H v st' i.
Proof. exact fresh_after. Qed.

(** as shipped: Dir.copy_to (and StagingDir) leave a destination Dir that already had a hash stale *)
Theorem C30_dir_copy_refuted_as_shipped : forall H, (forall a b, H a = H b -> a = b) ->
  exists st o st' r i,
    reachable H shipped st /\ step H shipped st o = ROk st' r /\ refreshed o = Some i /\ stage_noop st o = false /\
    observed_hash H shipped st' i <> fresh_hash H shipped st' i.
Proof. exact dir_copy_stale_shipped. Qed.

(** a value that has no hash yet takes it from the current filesystem *)
Theorem C30_first_hash_is_fresh : forall H v st i ob st' h,
  nth_error (s_objs st) i = Some ob -> vhash ob = None ->
  step H v st (OHash i) = ROk st' (RHash h) -> calc_hash H v (s_fs st) ob = Some h /\ s_fs st' = s_fs st.
Proof. exact first_hash_fresh. Qed.

(** 2. In every state reachable by any sequence of operations (through redun or behind its back),
    a value with a recorded hash is valid exactly when that hash equals the current one
    (for IFile / IFileSet, whose is_valid is constantly True, this is an invariant). *)
Theorem C30_valid_iff_hash_equal : forall H v st i ob r st' b,
  reachable H v st -> nth_error (s_objs st) i = Some ob -> vhash ob = Some r ->
  step H v st (OIsValid i) = ROk st' (RBool b) ->
  (b = true <-> calc_hash H v (s_fs st) ob = Some r).
Proof. exact valid_iff. Qed.
Theorem C30_valid_unrecorded : forall H v st i ob st' b,
  nth_error (s_objs st) i = Some ob -> vhash ob = None ->
  step H v st (OIsValid i) = ROk st' (RBool b) -> b = true.
Proof. exact valid_unrecorded. Qed.

(** 3. Content-hashed values: if every file in scope (the file; the files matching the pattern;
    the files below the directory) has the same bytes in two filesystems -- whatever the mtimes
    and the order of directory listings -- the hash is the same.  ContentDir needs the repair. *)
Theorem C30_content_hash_only_bytes : forall H v t fs fs',
  contentdir_by_content v = true \/ (forall d, t <> TDir d) ->
  wf fs -> wf fs' -> (forall p, in_scope t p = true -> same_bytes fs fs' p) ->
  calc_target H v FContent fs t = calc_target H v FContent fs' t.
Proof. exact content_only_bytes. Qed.

(** as shipped: touching a member changes a ContentDir's hash *)
Theorem C30_contentdir_refuted_as_shipped : forall H, (forall a b, H a = H b -> a = b) ->
  exists fs fs' d, wf fs /\ wf fs' /\ (forall p, same_bytes fs fs' p) /\
    calc_target H shipped FContent fs (TDir d) <> calc_target H shipped FContent fs' (TDir d).
Proof. exact contentdir_touch_shipped. Qed.

(** 4. Hashing never raises except for a ContentFile on a missing path in the code as shipped;
    a missing path (no file in scope) has one hash, the same in every such filesystem. *)
Theorem C30_calc_raises_only_missing_contentfile : forall H v f fs t, calc_target H v f fs t = None ->
  content_missing_total v = false /\ f = FContent /\ exists p, t = TFile p /\ fs_get fs p = None.
Proof. exact calc_none_only_missing_contentfile. Qed.
Theorem C30_missing_path_hash_total : forall H v f t fs,
  content_missing_total v = true \/ f <> FContent \/ (forall p, t <> TFile p) ->
  absent fs t ->
  exists h, calc_target H v f fs t = Some h /\ forall fs', absent fs' t -> calc_target H v f fs' t = Some h.
Proof. exact missing_total. Qed.
Theorem C30_contentfile_missing_refuted_as_shipped : forall H p, calc_target H shipped FContent [] (TFile p) = None.
Proof. exact contentfile_missing_shipped. Qed.

(** the order in which a directory is listed does not matter: sorted(hashes) is canonical *)
Theorem C30_sorted_hashes_canonical : forall l l', Permutation l l' -> sort_bytes l = sort_bytes l'.
Proof. exact sort_bytes_canonical. Qed.

(** 5. Listing versus hashing walk of a Dir.  Iterating a Dir lists its members ([dir_listing], the
    recursive glob); its hash is computed from a walk the filesystem provides.  The model's Dir hash
    uses the listing itself (the translator checks that LocalFileSystem inherits the generic
    iter_file_hashes).  For ANY walk that covers the listing, an unchanged Dir hash means that the
    recorded stat-hash of every listed member is still the hash of a walked file (nothing listed was
    deleted or altered); a walk that does not descend into a sub-directory misses such a change. *)
Theorem C30_dir_hash_is_over_the_listing : forall H v fs d,
  hash_dir H v FBase fs d = Some (dir_hash_with H dir_listing (bn_dir FBase) fs d).
Proof. exact hash_dir_uses_listing. Qed.
Theorem C30_dir_hash_covers_listing : forall H, (forall a b, H a = H b -> a = b) -> forall walk bn fs fs' d,
  incl (dir_listing fs d) (walk fs d) ->
  dir_hash_with H walk bn fs d = dir_hash_with H walk bn fs' d ->
  forall e, In e (dir_listing fs d) ->
    In (hash_file_base H fs (fst e)) (map (fun e' => hash_file_base H fs' (fst e')) (walk fs' d)).
Proof. exact dir_hash_covers_listing. Qed.
Theorem C30_refuted_walk_skipping_subdirectory : forall H, exists fs fs' d e,
  In e (dir_listing fs d) /\ fs_get fs' (fst e) = None /\
  dir_hash_with H walk_flat (bn_dir FBase) fs d = dir_hash_with H walk_flat (bn_dir FBase) fs' d.
Proof. exact walk_skipping_refuted. Qed.

(** Non-vacuity: a reachable state with a File and two Dirs; a redun write, then a change behind
    redun's back makes the File invalid (b = false), and a repaired Dir copy leaves the cached
    destination hash fresh. *)
Definition ex_ops : list op :=
  [ONew FBase (TFile (mkF [0%nat] 0%nat)); OWrite 0 (bs [97]%N) 1%Z; ONew FContent (TDir [0%nat]);
   ONew FContent (TDir [1%nat]); OHash 2; XWrite (mkF [0%nat] 0%nat) (bs [98;98]%N) 2%Z].
Definition ex_state : state := fold_left (fun s o => res_state s (step Hid fixed s o)) ex_ops (mkS [] []).
Example C30_nonvacuous :
  reachable Hid fixed ex_state /\
  (exists st', step Hid fixed ex_state (OIsValid 0) = ROk st' (RBool false)) /\
  (exists st' r, step Hid fixed ex_state (OCopyDir 1 2 []) = ROk st' r /\
                 observed_hash Hid fixed st' 2 = fresh_hash Hid fixed st' 2 /\
                 observed_hash Hid fixed st' 2 <> observed_hash Hid fixed ex_state 2).
Proof.
  split; [|split].
  - unfold ex_state. apply reachable_fold; [apply reach_init|vm_compute; reflexivity].
  - eexists. vm_compute. reflexivity.
  - eexists. eexists. split; [vm_compute; reflexivity|]. split; [vm_compute; reflexivity|vm_compute; discriminate].
Qed.

Print Assumptions C30_hash_fresh_after_write_copy_stage.
Print Assumptions C30_dir_copy_refuted_as_shipped.
Print Assumptions C30_valid_iff_hash_equal.
Print Assumptions C30_content_hash_only_bytes.
Print Assumptions C30_contentdir_refuted_as_shipped.
Print Assumptions C30_calc_raises_only_missing_contentfile.
Print Assumptions C30_missing_path_hash_total.
Print Assumptions C30_nonvacuous.
