(** C38 — Sub-scheduler runs are equivalent to direct evaluation.

    Model: Model/Subrun.v.  Three parts, as in the statement:
    (a) the result or error handed back through the _subrun_root_task dict and subrun's [then]
        equals what Scheduler.run gives for the same outcome of the inner evaluation, in a new and
        in the current execution, fresh or replayed from the recorded dict;
    (b) the Job rows written by a sub-scheduler that extends the execution lie under the calling
        job and in its execution, for every well-formed sequence of job creations;
    (c) the cache decision procedure (Scheduler._get_cache around RedunBackendDb.check_cache) with
        the options subrun gives the _subrun_root_task job never answers with a single-reduction
        entry and never consults the evaluation cache -- for every backend state, every
        cache_scope / check_valid the caller forwards, cache on or off, provenance on or off.
    What the *inner* evaluation computes (that a sub-scheduler evaluates an expression to the same
    outcome as the caller's scheduler would) is not a theorem here: it is the subject of the
    end-to-end oracle of harness/props/c38.py (generated sub-workflows against a scheduler-free
    reference and against direct evaluation).
    The shipped_* configurations are re-extracted from /repo by translate/tr_subrun.py (Gen/C38Gen.v). *)
From Coq Require Import List ZArith Bool.
From RV Require Import Model.Subrun Proofs.SubrunCache Proofs.SubrunHandback.
Import ListNotations.

(** (c) the subrun job is replayed by CSE or by an ultimate reduction only, and the evaluation
    (single-reduction) cache is not even asked *)
Theorem C38_subrun_no_single_reduction :
  forall (k : subrun_call) (ans : answers) v h ct tr,
    get_cache shipped_check_cache shipped_getcache (root_task_jobopts shipped_subrun_opts k) ans = (GHit v h ct, tr) ->
    (ct = CSE \/ ct = ULTIMATE) /\ ~ In FEval tr.
Proof. exact subrun_no_single_reduction. Qed.

(** more generally: any job whose allowed_cache_results lacks SINGLE *)
Theorem C38_no_single_when_excluded :
  forall jo (al : allowed) ans v h ct tr,
    jo_allowed jo = Some al -> al SINGLE = false ->
    get_cache shipped_check_cache shipped_getcache jo ans = (GHit v h ct, tr) ->
    ct <> SINGLE /\ ~ In FEval tr.
Proof. exact get_cache_no_single. Qed.

(** an ultimate reduction is used for it only with shallow checking at backend scope, cache on, provenance on:
    with check_valid="full" the sub-scheduler is started (unless CSE applies) *)
Theorem C38_ultimate_only_when_shallow_backend :
  forall k ans v h tr,
    get_cache shipped_check_cache shipped_getcache (root_task_jobopts shipped_subrun_opts k) ans = (GHit v h ULTIMATE, tr) ->
    c_valid k <> Some CvFULL /\ c_scope k <> Some ScNONE /\ c_scope k <> Some ScCSE /\ c_use_cache k = true /\ c_prov k = true.
Proof. exact subrun_ultimate_only_when_shallow_backend. Qed.

(** a run started with cache=False replays the subrun job by CSE only -- exactly what it does for every
    directly evaluated job -- whatever cache options the caller forwards *)
Theorem C38_cache_false_is_cse_only :
  forall k ans v h ct tr,
    c_use_cache k = false ->
    get_cache shipped_check_cache shipped_getcache (root_task_jobopts shipped_subrun_opts k) ans = (GHit v h ct, tr) ->
    ct = CSE.
Proof. exact subrun_cache_false_is_cse_only. Qed.

Theorem C38_direct_cache_false_is_cse_only :
  forall ans v h ct tr,
    get_cache shipped_check_cache shipped_getcache (direct_jobopts false) ans = (GHit v h ct, tr) -> ct = CSE.
Proof. exact direct_cache_false_is_cse_only. Qed.

(** the variant that installs the cache=False override only for tasks *defined* with backend scope is refuted:
    _subrun_root_task is defined with CSE scope and called with BACKEND scope *)
Theorem C38_guarded_downgrade_refuted :
  exists k ans v h tr,
    c_use_cache k = false /\
    get_cache shipped_check_cache shipped_getcache (root_task_jobopts guarded_subrun_opts k) ans = (GHit v h ULTIMATE, tr).
Proof. exact guarded_downgrade_refuted. Qed.

(** the translated check_cache program equals its closed form, and the procedure is total *)
Theorem C38_check_cache_closed_form :
  forall scope cv oal ans, run_cc shipped_check_cache scope cv oal ans = cc_spec scope cv oal ans.
Proof. exact run_cc_spec. Qed.

Theorem C38_get_cache_total :
  forall jo ans, fst (get_cache shipped_check_cache shipped_getcache jo ans) <> GPyError.
Proof. exact get_cache_total. Qed.

(** (a) result / error equality, new or current execution, every outcome *)
Theorem C38_subrun_eq_direct :
  forall new_execution o,
    subrun_observed shipped_handback new_execution o = run_direct shipped_handback o.
Proof. exact handback_eq_direct. Qed.

Theorem C38_replayed_dict_eq_direct :
  forall new_execution o d,
    root_task shipped_handback new_execution o = TaskReturns d ->
    then_chain (hb_then shipped_handback) d RaiseDryRun = run_direct shipped_handback o.
Proof. exact replay_same. Qed.

Theorem C38_then_never_silent :
  forall new_execution o d,
    root_task shipped_handback new_execution o = TaskReturns d ->
    then_chain (hb_then shipped_handback) d RaiseDryRun <> RetNone /\
    then_chain (hb_then shipped_handback) d RaiseDryRun <> PyError.
Proof. exact then_never_silent. Qed.

(** a later execution on the same backend: a value is replayed, a failed sub-execution is run again,
    exactly as direct evaluation does (both modes, all outcomes) *)
Theorem C38_second_execution_eq_direct :
  forall new_execution o1 o2, o1 <> ODry ->
    second_execution_subrun shipped_handback new_execution o1 o2 = second_execution_direct shipped_handback o1 o2.
Proof. exact second_execution_eq_direct. Qed.

(** the earlier shape of _subrun_root_task (failure of an extending sub-execution returned as the job's VALUE)
    is refuted: the error is replayed by the next execution and the repaired sub-workflow never runs *)
Theorem C38_value_shape_replays_failure_refuted :
  exists o1 o2,
    second_execution_subrun value_handback false o1 o2 = (Raise 1, false) /\
    second_execution_direct value_handback o1 o2 = (RetV 2, true).
Proof. exact value_shape_replays_failure_refuted. Qed.

(** (a') the context the sub-workflow starts from is the calling job's, with new_execution on and off,
    for every config-level context, run() context and chain of update_context overrides *)
Theorem C38_forwarded_context_is_callers :
  forall (config run : ctx) (overrides : list ctx) (k : nat),
    let fwd := job_context (run_context shipped_ctx_order (ctx_get config) (ctx_get run)) overrides in
    sub_new_context shipped_ctx_order (ctx_get config) fwd k = fwd k /\
    sub_extend_context fwd k = fwd k.
Proof. exact forwarded_context_is_callers. Qed.

(** the mode is part of the cache identity of the job that starts the sub-scheduler *)
Theorem C38_root_key_separates_modes :
  forall a b : rtarg -> Z,
    root_key shipped_config_args a = root_key shipped_config_args b ->
    a AExpr = b AExpr /\ a ANewExecution = b ANewExecution /\ a AExportOptions = b AExportOptions.
Proof. exact root_key_separates_modes. Qed.

(** a top-level expression that is not wrapped in redun.root_task creates exactly one job under the
    (stand-in) parent: args, kwargs, default args, task options and call-time options are all concrete *)
Theorem C38_unwrapped_root_is_single_job :
  forall is_task is_sched lazy,
    needs_root shipped_root_parts is_task is_sched lazy = false ->
    is_task = true /\ is_sched = false /\ top_jobs_unwrapped lazy = 1.
Proof. exact unwrapped_root_is_single_job. Qed.

(** (b) Job rows *)
Theorem C38_extend_jobs_same_execution :
  forall ops r, In r (sub_rows shipped_wiring false ops) -> r_exec r = ECaller.
Proof. exact extend_rows_same_execution. Qed.

Theorem C38_extend_jobs_under_caller :
  forall ops, wf_ops ops = true ->
    forall n, n < length ops -> under_caller (sub_rows shipped_wiring false ops) (S n) (JInner n) = true.
Proof. exact extend_rows_under_caller. Qed.

Theorem C38_extend_root_is_child_of_caller :
  forall ops n, nth_error ops n = Some NewTop ->
    nth_error (sub_rows shipped_wiring false ops) n = Some (mkRow (JInner n) (Some JCaller) ECaller).
Proof. exact extend_top_rows_are_children_of_caller. Qed.

Theorem C38_new_execution_jobs_detached :
  forall ops r, In r (sub_rows shipped_wiring true ops) -> r_exec r = EFresh /\ r_parent r <> Some JCaller.
Proof. exact new_rows_fresh_execution. Qed.

(** non-vacuity: the hypotheses are satisfiable on non-trivial states, and the restriction is what
    makes (c) true -- an unrestricted job does replay the single-reduction entry in the same state *)
Example C38_nonvacuous :
  (* a backend state with only a single-reduction entry: replayed for an ordinary job ... *)
  get_cache shipped_check_cache shipped_getcache jo_plain ans_only_single
    = (GHit (CVal 7 true true) None SINGLE, [QNode LkCSE; FEval])
  (* ... not for the subrun job, which asks for CSE and ultimate only *)
  /\ get_cache shipped_check_cache shipped_getcache (root_task_jobopts shipped_subrun_opts call_default) ans_only_single
    = (GMiss, [QNode LkCSE; QNode LkULT])
  (* the subrun job does get CSE and ultimate hits *)
  /\ get_cache shipped_check_cache shipped_getcache (root_task_jobopts shipped_subrun_opts call_default) ans_all
    = (GHit (CVal 5 true true) (Some 1%Z) CSE, [QNode LkCSE; FCall LkCSE])
  /\ get_cache shipped_check_cache shipped_getcache (root_task_jobopts shipped_subrun_opts call_default) ans_ult_single
    = (GHit (CVal 6 true true) (Some 2%Z) ULTIMATE, [QNode LkCSE; QNode LkULT; FCall LkULT])
  (* with SINGLE in the literal set the entry would be replayed *)
  /\ fst (get_cache shipped_check_cache shipped_getcache (root_task_jobopts lax_subrun_opts call_default) ans_only_single)
    = GHit (CVal 7 true true) None SINGLE
  (* hand-back: a value, an error, in both modes *)
  /\ subrun_observed shipped_handback false (OErr 3) = Raise 3
  /\ subrun_observed shipped_handback true (OVal 4) = RetV 4
  (* context: a caller override of a config-defined key reaches the sub-workflow; merged the other way round it would not *)
  /\ sub_new_context shipped_ctx_order (ctx_get [(0, 7%Z)])
        (job_context (run_context shipped_ctx_order (ctx_get [(0, 7%Z)]) (ctx_get [])) [[(0, 2%Z)]]) 0 = Some 2%Z
  /\ sub_new_context RunThenConfig (ctx_get [(0, 7%Z)])
        (job_context (run_context RunThenConfig (ctx_get [(0, 7%Z)]) (ctx_get [])) [[(0, 2%Z)]]) 0 = Some 7%Z
  (* rows: a sub-execution of four jobs, all under the caller *)
  /\ under_caller (sub_rows shipped_wiring false [NewTop; NewChild 0; NewChild 0; NewChild 2]) 4 (JInner 3) = true
  (* and a wiring without the stand-in parent job would detach them *)
  /\ under_caller (sub_rows detached_wiring false [NewTop; NewChild 0]) 2 (JInner 1) = false.
Proof. repeat split. Qed.

Print Assumptions C38_subrun_no_single_reduction.
Print Assumptions C38_no_single_when_excluded.
Print Assumptions C38_ultimate_only_when_shallow_backend.
Print Assumptions C38_cache_false_is_cse_only.
Print Assumptions C38_direct_cache_false_is_cse_only.
Print Assumptions C38_guarded_downgrade_refuted.
Print Assumptions C38_check_cache_closed_form.
Print Assumptions C38_get_cache_total.
Print Assumptions C38_subrun_eq_direct.
Print Assumptions C38_replayed_dict_eq_direct.
Print Assumptions C38_then_never_silent.
Print Assumptions C38_second_execution_eq_direct.
Print Assumptions C38_value_shape_replays_failure_refuted.
Print Assumptions C38_forwarded_context_is_callers.
Print Assumptions C38_root_key_separates_modes.
Print Assumptions C38_unwrapped_root_is_single_job.
Print Assumptions C38_extend_jobs_same_execution.
Print Assumptions C38_extend_jobs_under_caller.
Print Assumptions C38_extend_root_is_child_of_caller.
Print Assumptions C38_new_execution_jobs_detached.
Print Assumptions C38_nonvacuous.
