(** C32 — The remote job protocol reproduces local execution.
    Only statements, closed by [exact], and their assumptions.

    The protocol model is [Model/Scratch.v]; all theorems are about [shipped], the configuration
    that translate/tr_scratch.py re-extracts from /repo (tie: Gen/C32Gen.v).
    Premise (Section hypothesis, visible below as an antecedent): pickle round trip
    [load (dump o) = Some o].  [f] is the task body, an arbitrary function to results/exceptions;
    [valid] the type registry's validity test; hashes and array ids are non-empty lowercase hex. *)
From Coq Require Import List Arith NArith Ascii String Bool.
From RV Require Import Base.Decimal Base.Lit Model.Scratch
  Proofs.ScratchStr Proofs.ScratchRun Proofs.ScratchReunite Proofs.ScratchMain Proofs.ScratchGroup Proofs.ScratchClear.
Import ListNotations.
Open Scope list_scope.

(** 1. One job through pickled input -> oneshot -> output / error file -> parse_job_result /
    parse_job_error gives exactly the local result or exception.  [prior_ok'] allows any
    pre-existing output file that is loadable and, if accepted as valid, holds what the task
    returns (the oneshot cache); [C32_single_eq_local_fresh] is the case without one. *)
Theorem C32_single_eq_local :
  forall V pbytes (dump : obj V -> pbytes) load f valid tb_of,
  (forall o, load (dump o) = Some o) ->
  forall prefix nc (j : job V) (fs : fs_t pbytes),
  hexstr (j_hash j) = true -> prior_ok' V pbytes load f valid prefix nc j fs ->
  snd (remote_single V pbytes dump load f valid tb_of shipped prefix nc j fs) = local V f j.
Proof. exact main_single. Qed.

Theorem C32_single_eq_local_fresh :
  forall V pbytes (dump : obj V -> pbytes) load f valid tb_of,
  (forall o, load (dump o) = Some o) ->
  forall prefix nc (j : job V) (fs : fs_t pbytes),
  hexstr (j_hash j) = true -> fresh V pbytes prefix fs j ->
  snd (remote_single V pbytes dump load f valid tb_of shipped prefix nc j fs) = local V f j.
Proof. exact main_single_fresh. Qed.

(** 2. Array jobs, any array size, any element index, after ANY sequential schedule [before] of
    other / the same elements (retries included): element i yields the local result or exception
    of jobs[i] (it read its own arguments), and touches no file except the output and error file
    of jobs[i]. *)
Theorem C32_array_elem_eq_local :
  forall V pbytes (dump : obj V -> pbytes) load f valid tb_of,
  (forall o, load (dump o) = Some o) ->
  forall prefix aid (jobs : list (job V)) nc envs (fs0 : fs_t pbytes) inc before i j,
  hexstr aid = true -> HexJobs V jobs -> HashDeterminesArgs V jobs ->
  (forall i, i < List.length jobs -> get_index shipped (envs i) None = IdxOk (N.of_nat i)) ->
  (forall j, In j jobs -> prior_ok' V pbytes load f valid prefix nc j fs0) ->
  Forall (fun i => i < List.length jobs) before ->
  nth_error jobs i = Some j ->
  let fs := run_seq V pbytes dump load f valid tb_of shipped prefix aid nc envs before
              (write_array V pbytes dump shipped prefix aid jobs inc fs0) in
  let '(fs', r) := run_elem V pbytes dump load f valid tb_of shipped prefix aid nc (envs i) fs in
  collect V pbytes load shipped prefix (j_hash j) fs' r = local V f j
  /\ (forall q, q <> job_file shipped prefix (j_hash j) (f_output shipped) ->
                q <> job_file shipped prefix (j_hash j) (f_error shipped) ->
                fs_read pbytes fs' q = fs_read pbytes fs q).
Proof. exact main_array. Qed.

(** the same with the environment a batch system sets (AWS / K8S / GCP index variable holding the
    decimal index), arrays up to MAX_ARRAY_SIZE = 10000, fresh scratch directory *)
Theorem C32_array_elem_eq_local_batch :
  forall V pbytes (dump : obj V -> pbytes) load f valid tb_of,
  (forall o, load (dump o) = Some o) ->
  forall v prefix aid (jobs : list (job V)) nc (fs0 : fs_t pbytes) inc before i j,
  In v (env_vars shipped) -> List.length jobs <= 10000 ->
  hexstr aid = true -> HexJobs V jobs -> HashDeterminesArgs V jobs ->
  (forall j, In j jobs -> fresh V pbytes prefix fs0 j) ->
  Forall (fun i => i < List.length jobs) before ->
  nth_error jobs i = Some j ->
  let fs := run_seq V pbytes dump load f valid tb_of shipped prefix aid nc (batch_env v) before
              (write_array V pbytes dump shipped prefix aid jobs inc fs0) in
  let '(fs', r) := run_elem V pbytes dump load f valid tb_of shipped prefix aid nc (batch_env v i) fs in
  collect V pbytes load shipped prefix (j_hash j) fs' r = local V f j
  /\ (forall q, q <> job_file shipped prefix (j_hash j) (f_output shipped) ->
                q <> job_file shipped prefix (j_hash j) (f_error shipped) ->
                fs_read pbytes fs' q = fs_read pbytes fs q).
Proof. exact main_array_batch. Qed.

(** the output / error file of a job belongs to that job only *)
Theorem C32_own_paths : forall prefix h h',
  hexstr h = true -> hexstr h' = true ->
  (job_file shipped prefix h (f_output shipped) = job_file shipped prefix h' (f_output shipped) -> h = h')
  /\ (job_file shipped prefix h (f_error shipped) = job_file shipped prefix h' (f_error shipped) -> h = h')
  /\ job_file shipped prefix h (f_output shipped) <> job_file shipped prefix h' (f_error shipped)
  /\ (forall aid g x, hexstr aid = true -> In g [f_input shipped; f_output shipped; f_error shipped; f_hashes shipped] ->
        In x [f_input shipped; f_output shipped; f_error shipped] ->
        array_file shipped prefix aid g <> job_file shipped prefix h x).
Proof. exact own_paths. Qed.

Theorem C32_array_index_env : forall v n, In v (env_vars shipped) -> (n < 10000)%nat ->
  get_index shipped [(v, dec_of_nat n)] None = IdxOk (N.of_nat n).
Proof. exact (array_index_env shipped). Qed.

(** 3. Job names and reuniting. *)
Theorem C32_jobname_roundtrip : forall p h a,
  NoNl p -> h <> [] -> NoDash h -> h <> arr_suffix shipped ->
  hash_of_job_name shipped (batch_job_name shipped p h a) = Some h.
Proof. intros p h a Hp Hn Hd Hs. apply jobname_roundtrip; auto. apply shipped_ok. Qed.

Theorem C32_jobname_roundtrip_hex : forall p h a, NoNl p -> hexstr h = true ->
  hash_of_job_name shipped (batch_job_name shipped p h a) = Some h
  /\ is_array_job_name shipped (batch_job_name shipped p h a) = a.
Proof. exact jobname_roundtrip_hex. Qed.

Theorem C32_eval_hashes_file :
  forall V pbytes (dump : obj V -> pbytes) prefix aid (jobs : list (job V)) (fs : fs_t pbytes) i j,
  HexJobs V jobs -> nth_error jobs i = Some j ->
  exists t, fs_read pbytes (write_array V pbytes dump shipped prefix aid jobs true fs)
              (array_file shipped prefix aid (f_hashes shipped)) = Some (BText pbytes t)
            /\ nth_error (splitlines t) i = Some (j_hash j).
Proof. exact main_hashes_file. Qed.

(** For every list of in-flight remote jobs that are (a) single jobs named for the evaluation hash
    they were created for, (b) array jobs whose eval-hash file maps child index to the hash the
    child was created for, or (c) unrelated jobs whose name does not yield a hex hash / an existing
    eval-hash file: a job with evaluation hash h is only reunited with a remote job created for h. *)
Theorem C32_reunite_only_same_hash :
  forall pbytes sp (fs : fs_t pbytes) (created : str -> str -> Prop) l m h id,
  Forall (wf_inflight pbytes shipped sp fs created) l ->
  gather_inflight pbytes shipped sp fs l [] = GOk m ->
  hexstr h = true -> reunite m h = Some id -> created id h.
Proof. exact main_reunite. Qed.

(** Non-vacuity: a concrete array of three jobs (one raising), a concrete in-flight listing. *)
Example C32_nonvacuous :
  ((forall o, Instance.load (Instance.dump o) = Some o) /\ In Instance.aws (env_vars shipped) /\
   hexstr Instance.aid = true /\ HexJobs Instance.V Instance.jobs /\ HashDeterminesArgs Instance.V Instance.jobs /\
   (forall j, In j Instance.jobs -> fresh Instance.V Instance.pb Instance.prefix [] j))
  /\ (Instance.elem [2; 0; 2] 1 = Some (CReject Instance.V (Leaf 99)) /\
      Instance.elem [1; 1] 0 = Some (CDone Instance.V (Seq [Leaf 1; Leaf 10])))
  /\ Forall (wf_inflight Instance.pb shipped Instance.prefix Instance.fs0 Instance.created0) Instance.inflight0
  /\ (exists m, gather_inflight Instance.pb shipped Instance.prefix Instance.fs0 Instance.inflight0 [] = GOk m /\
        reunite m (lit "c3") = Some (lit "id-7") /\ reunite m (lit "b2") = Some (lit "id-8:1")).
Proof.
  split; [exact Instance.hyps|]. split; [split; apply Instance.results|]. split; [exact Instance.reunite_hyps|].
  destruct Instance.reunite_result as [m [E [R1 [R2 _]]]]. exists m. auto.
Qed.

(** 4. The array path.  The arrayer bunches jobs whose description key (task full name + options)
    is equal; the array gets ONE oneshot command naming jobs[0]'s task.  For every pending list,
    key and (sub)group: the command names the own task of every job in the group, and element i
    (after any schedule) yields what ITS task computes on ITS arguments ([F]: registry by full name). *)
Theorem C32_array_group_own_task :
  forall (J : Type) (info : J -> tinfo) pending k group j,
  (forall x, In x pending -> NoSpace (fullname (info x))) ->
  (forall x, In x group -> In x (group_of shipped info pending k)) -> group <> [] ->
  In j group -> array_command_task info group = Some (fullname (info j)).
Proof. intros J info. exact (group_own_task J info shipped eq_refl eq_refl). Qed.

(** all jobs bunched into one array have the options (rendered item list, names AND values) of
    jobs[0], with whose options the array is submitted *)
Theorem C32_array_group_same_options :
  forall (J : Type) (info : J -> tinfo) pending k group h rest j,
  (forall x, In x pending -> NoSpace (fullname (info x))) ->
  (forall x, In x group -> In x (group_of shipped info pending k)) -> group = h :: rest ->
  In j group -> t_opts (info j) = t_opts (info h).
Proof. intros J info. exact (group_same_options J info shipped eq_refl eq_refl). Qed.

(** refuted when the key lists option names only: memory=4 and memory=64 share an array *)
Theorem C32_grouping_names_only_refuted :
  (group_of (names_only shipped) (fun t => t) NamesVariant.pending (descr_key (names_only shipped) NamesVariant.small)
     = [NamesVariant.small; NamesVariant.big]
   /\ t_opts NamesVariant.big <> t_opts NamesVariant.small)
  /\ (group_of shipped (fun t => t) NamesVariant.pending (descr_key shipped NamesVariant.small) = [NamesVariant.small]
      /\ group_of shipped (fun t => t) NamesVariant.pending (descr_key shipped NamesVariant.big) = [NamesVariant.big]).
Proof. exact (conj NamesVariant.refuted NamesVariant.shipped_separates). Qed.

Theorem C32_array_group_elem_eq_local :
  forall V pbytes (dump : obj V -> pbytes) load (F : str -> obj V -> obj V -> outcome V) valid tb_of,
  (forall o, load (dump o) = Some o) ->
  forall (J : Type) (info : J -> tinfo) (jb : J -> job V) prefix aid pending k group cmd nc envs
         (fs0 : fs_t pbytes) inc before i x,
  (forall y, In y pending -> NoSpace (fullname (info y))) ->
  (forall y, In y group -> In y (group_of shipped info pending k)) ->
  array_command_task info group = Some cmd ->
  let jobs := map jb group in
  hexstr aid = true -> HexJobs V jobs -> HashDeterminesArgs V jobs ->
  (forall i, i < List.length jobs -> get_index shipped (envs i) None = IdxOk (N.of_nat i)) ->
  (forall j, In j jobs -> prior_ok' V pbytes load (F cmd) valid prefix nc j fs0) ->
  Forall (fun i => i < List.length jobs) before ->
  nth_error group i = Some x ->
  let fs := run_seq V pbytes dump load (F cmd) valid tb_of shipped prefix aid nc envs before
              (write_array V pbytes dump shipped prefix aid jobs inc fs0) in
  let '(fs', r) := run_elem V pbytes dump load (F cmd) valid tb_of shipped prefix aid nc (envs i) fs in
  cmd = fullname (info x)
  /\ collect V pbytes load shipped prefix (j_hash (jb x)) fs' r = local V (F (fullname (info x))) (jb x).
Proof. exact main_array_group. Qed.

(** grouping by the short task name only (variant [by_name], i.e. `job.task.name`) is refuted:
    alpha.transform and beta.transform share an array whose command names alpha.transform, and
    element 1 returns alpha's value where beta's is expected; the shipped key separates them *)
Theorem C32_grouping_by_name_refuted :
  (In NameVariant.beta (group_of (by_name shipped) (fun t => t) NameVariant.pending NameVariant.k)
   /\ array_command_task (fun t => t) (group_of (by_name shipped) (fun t => t) NameVariant.pending NameVariant.k)
      = Some (fullname NameVariant.alpha)
   /\ fullname NameVariant.alpha <> fullname NameVariant.beta)
  /\ (NameVariant.remote_elem1 = CDone nat (Seq [Leaf 100; Leaf 2])
      /\ local nat (NameVariant.F (fullname NameVariant.beta))
           {| j_hash := lit "b2"; j_args := Leaf 2; j_kwargs := Leaf 0 |} = CDone nat (Seq [Leaf 200; Leaf 2]))
  /\ (group_of shipped (fun t => t) NameVariant.pending (descr_key shipped NameVariant.alpha) = [NameVariant.alpha]
      /\ group_of shipped (fun t => t) NameVariant.pending (descr_key shipped NameVariant.beta) = [NameVariant.beta]).
Proof. exact (conj NameVariant.refuted (conj NameVariant.run_differs NameVariant.shipped_separates)). Qed.

(** 5. Attempts.  The job scratch directory is keyed by the evaluation hash, which leaves out
    config_args and JobInfo arguments, so earlier attempts under the same hash may have staged other
    arguments.  After ANY history of attempts on the directory, an attempt's remote run reads the
    input staged by that attempt and yields the local outcome of ITS arguments (given the usual
    condition on the output file); after a history of failed attempts no condition is needed. *)
Theorem C32_attempts_eq_local :
  forall V pbytes (dump : obj V -> pbytes) load f valid tb_of,
  (forall o, load (dump o) = Some o) ->
  forall prefix nc (hist : list (job V)) (j : job V) (fs : fs_t pbytes),
  hexstr (j_hash j) = true ->
  prior_ok' V pbytes load f valid prefix nc j (run_attempts V pbytes dump load f valid tb_of shipped prefix nc hist fs) ->
  snd (remote_single V pbytes dump load f valid tb_of shipped prefix nc j
         (run_attempts V pbytes dump load f valid tb_of shipped prefix nc hist fs)) = local V f j.
Proof. exact main_attempts. Qed.

Theorem C32_attempts_after_failures :
  forall V pbytes (dump : obj V -> pbytes) load f valid tb_of,
  (forall o, load (dump o) = Some o) ->
  forall prefix nc (hist : list (job V)) (j : job V) (fs : fs_t pbytes),
  hexstr (j_hash j) = true -> fresh V pbytes prefix fs j ->
  Forall (fun a => j_hash a = j_hash j /\ exists e, f (j_args a) (j_kwargs a) = Exc V e) hist ->
  snd (remote_single V pbytes dump load f valid tb_of shipped prefix nc j
         (run_attempts V pbytes dump load f valid tb_of shipped prefix nc hist fs)) = local V f j.
Proof. exact main_attempts_after_failures. Qed.

(** staging the input only when no input file exists (variant [if_absent]) is refuted: after a
    failed attempt with other arguments the next attempt of the same hash reproduces the stale
    exception instead of its own result; with the shipped staging it agrees with the local call *)
Theorem C32_stage_if_absent_refuted :
  Instance.second_attempt (if_absent shipped) = CReject Instance.V (Leaf 99)
  /\ local Instance.V Instance.f Instance.attempt2 = CDone Instance.V (Seq [Leaf 3; Leaf 10])
  /\ Instance.second_attempt shipped = local Instance.V Instance.f Instance.attempt2.
Proof. exact Instance.if_absent_refuted. Qed.

(** 6. Executors that judge a finished job by its scratch files (docker.iter_job_status:
    succeeded = output exists -- DockerExecutor and every executor's debug mode;
    AWSBatchExecutor._can_override_failed), and run HISTORIES on one scratch directory.
    [collect_by_output]: output present -> result, else the error file.
    [fixed] removes a previous output whenever oneshot is about to call the task; [shipped] only
    when the cache was consulted (the remove sits inside `if output_path and not args.no_cache`).
    For the clearing shapes: after a run exactly one of output / error exists, the output iff the
    run succeeded, and the reported outcome is the local one of THIS run. *)
Theorem C32_output_iff_success_fixed :
  forall V pbytes (dump : obj V -> pbytes) load f valid tb_of,
  (forall o, load (dump o) = Some o) ->
  forall prefix nc (j : job V) (fs : fs_t pbytes),
  hexstr (j_hash j) = true -> prior_ok V pbytes load f valid fixed prefix nc j fs ->
  let fs' := fst (remote_single V pbytes dump load f valid tb_of fixed prefix nc j fs) in
  collect_by_output V pbytes load fixed prefix (j_hash j) fs' = local V f j /\ one_file pbytes fixed prefix fs' (j_hash j).
Proof. exact by_output_fixed. Qed.

(** with --no-cache, for ANY previous content of the scratch directory (any history of runs) *)
Theorem C32_output_iff_success_fixed_no_cache :
  forall V pbytes (dump : obj V -> pbytes) load f valid tb_of,
  (forall o, load (dump o) = Some o) ->
  forall prefix (j : job V) (fs : fs_t pbytes),
  hexstr (j_hash j) = true ->
  let fs' := fst (remote_single V pbytes dump load f valid tb_of fixed prefix true j fs) in
  collect_by_output V pbytes load fixed prefix (j_hash j) fs' = local V f j /\ one_file pbytes fixed prefix fs' (j_hash j).
Proof. exact by_output_fixed_no_cache. Qed.

(** what holds as shipped: the runs that consult the cache *)
Theorem C32_output_iff_success_shipped_partial :
  forall V pbytes (dump : obj V -> pbytes) load f valid tb_of,
  (forall o, load (dump o) = Some o) ->
  forall prefix (j : job V) (fs : fs_t pbytes),
  hexstr (j_hash j) = true -> prior_ok V pbytes load f valid shipped prefix false j fs ->
  let fs' := fst (remote_single V pbytes dump load f valid tb_of shipped prefix false j fs) in
  collect_by_output V pbytes load shipped prefix (j_hash j) fs' = local V f j /\ one_file pbytes shipped prefix fs' (j_hash j).
Proof. exact by_output_shipped_cached. Qed.
(* NOT PROVED for [shipped] with nc = true: refuted, see C32_stale_output_no_cache_refuted. *)

Theorem C32_array_output_iff_success_fixed :
  forall V pbytes (dump : obj V -> pbytes) load f valid tb_of,
  (forall o, load (dump o) = Some o) ->
  forall prefix aid (jobs : list (job V)) nc envs (fs0 : fs_t pbytes) inc before i j,
  hexstr aid = true -> HexJobs V jobs -> HashDeterminesArgs V jobs ->
  (forall i, i < List.length jobs -> get_index fixed (envs i) None = IdxOk (N.of_nat i)) ->
  (forall j, In j jobs -> prior_ok V pbytes load f valid fixed prefix nc j fs0) ->
  Forall (fun i => i < List.length jobs) before ->
  nth_error jobs i = Some j ->
  let fs := run_seq V pbytes dump load f valid tb_of fixed prefix aid nc envs before
              (write_array V pbytes dump fixed prefix aid jobs inc fs0) in
  let fs' := fst (run_elem V pbytes dump load f valid tb_of fixed prefix aid nc (envs i) fs) in
  collect_by_output V pbytes load fixed prefix (j_hash j) fs' = local V f j /\ one_file pbytes fixed prefix fs' (j_hash j).
Proof. exact array_by_output_fixed. Qed.

Theorem C32_array_output_iff_success_shipped_partial :
  forall V pbytes (dump : obj V -> pbytes) load f valid tb_of,
  (forall o, load (dump o) = Some o) ->
  forall prefix aid (jobs : list (job V)) envs (fs0 : fs_t pbytes) inc before i j,
  hexstr aid = true -> HexJobs V jobs -> HashDeterminesArgs V jobs ->
  (forall i, i < List.length jobs -> get_index shipped (envs i) None = IdxOk (N.of_nat i)) ->
  (forall j, In j jobs -> prior_ok V pbytes load f valid shipped prefix false j fs0) ->
  Forall (fun i => i < List.length jobs) before ->
  nth_error jobs i = Some j ->
  let fs := run_seq V pbytes dump load f valid tb_of shipped prefix aid false envs before
              (write_array V pbytes dump shipped prefix aid jobs inc fs0) in
  let fs' := fst (run_elem V pbytes dump load f valid tb_of shipped prefix aid false (envs i) fs) in
  collect_by_output V pbytes load shipped prefix (j_hash j) fs' = local V f j /\ one_file pbytes shipped prefix fs' (j_hash j).
Proof. exact array_by_output_shipped_cached. Qed.

(** REFUTED as shipped: history (ok; raise) of one call with --no-cache (cache_scope NONE / CSE):
    the failing second run is reported with the first run's stale result, and both files exist. *)
Theorem C32_stale_output_no_cache_refuted :
  History.ok_then_raise shipped true History.all_valid = (CDone History.V (Leaf 5), true)
  /\ local History.V History.f_raise History.j = CReject History.V (Leaf 99).
Proof. exact History.shipped_no_cache_refuted. Qed.

(** REFUTED for the shape without any remove, even when the cache is consulted and rejects the
    stale value; the fixed shape (and the shipped one on the cached path) report the exception *)
Theorem C32_never_clear_refuted :
  History.ok_then_raise never false History.none_valid = (CDone History.V (Leaf 5), true)
  /\ History.ok_then_raise never true History.all_valid = (CDone History.V (Leaf 5), true)
  /\ local History.V History.f_raise History.j = CReject History.V (Leaf 99).
Proof. exact History.never_refuted. Qed.

Theorem C32_history_fixed_agrees :
  History.ok_then_raise fixed true History.all_valid = (CReject History.V (Leaf 99), false)
  /\ History.ok_then_raise fixed false History.none_valid = (CReject History.V (Leaf 99), false)
  /\ History.ok_then_raise shipped false History.none_valid = (CReject History.V (Leaf 99), false).
Proof. exact History.fixed_agrees. Qed.

Print Assumptions C32_output_iff_success_fixed.
Print Assumptions C32_output_iff_success_fixed_no_cache.
Print Assumptions C32_output_iff_success_shipped_partial.
Print Assumptions C32_array_output_iff_success_fixed.
Print Assumptions C32_array_output_iff_success_shipped_partial.
Print Assumptions C32_stale_output_no_cache_refuted.
Print Assumptions C32_never_clear_refuted.
Print Assumptions C32_history_fixed_agrees.
Print Assumptions C32_attempts_eq_local.
Print Assumptions C32_attempts_after_failures.
Print Assumptions C32_stage_if_absent_refuted.
Print Assumptions C32_array_group_same_options.
Print Assumptions C32_grouping_names_only_refuted.
Print Assumptions C32_array_group_own_task.
Print Assumptions C32_array_group_elem_eq_local.
Print Assumptions C32_grouping_by_name_refuted.
Print Assumptions C32_single_eq_local.
Print Assumptions C32_array_elem_eq_local.
Print Assumptions C32_array_elem_eq_local_batch.
Print Assumptions C32_own_paths.
Print Assumptions C32_array_index_env.
Print Assumptions C32_jobname_roundtrip_hex.
Print Assumptions C32_eval_hashes_file.
Print Assumptions C32_reunite_only_same_hash.
Print Assumptions C32_nonvacuous.
