(** C12 — Failures propagate and are never replayed from the cache.
    Two models: (1) Model/EvalTree.v for propagation: a program whose reduction fails (no enclosing
    catch handles the error) makes every schedule of the machine fail with an admissible error, and
    the failure is a chain of failed calls from the root down to the task that raised;
    (2) the decision chain at the end of Scheduler._get_cache (Model/FileVal.v, extracted by
    translate/tr_getcache.py): a backend entry whose value is an error is never a hit; only the
    same-execution CSE lookup may return an error. *)
From Coq Require Import List ZArith Bool Arith.
From RV Require Import Model.EvalTree Proofs.EvalTreeWF Proofs.EvalTreeRun Proofs.EvalTreeRef Proofs.EvalTreeKo
  Model.FileVal.
Import ListNotations.
Open Scope list_scope.

(** If the reduction semantics says the program fails, every finished run raises, with one of the
    admissible errors (exactly the error when only one call can fail). *)
Theorem C12_error_propagates : forall s ops o,
  fails s = true -> result (run s ops) = Some o -> exists e, o = Ko e /\ adm s (Ko e).
Proof.
  intros s ops o Hf Hr. pose proof (run_sound s ops o Hr) as Ha. destruct o as [v|e].
  - exfalso. eapply fails_true_no_ok; eauto.
  - eauto.
Qed.

(** The failing call and each of its ancestors up to the root are failed, with that error. *)
Theorem C12_failed_chain : forall s ops e,
  result (run s ops) = Some (Ko e) -> ko_path e (run s ops).
Proof. exact run_ko_path. Qed.

(** A caught error does not fail the workflow. *)
Theorem C12_catch_handles : forall c, fails (SCatch c) = false.
Proof. reflexivity. Qed.

(** _get_cache: whatever the backend returns outside the same-execution CSE lookup, an error value
    is a miss, so the call is executed again in a later execution. *)
Theorem C12_errors_not_replayed : forall ct handles_ok valid,
  ct <> CT_CSE -> eval_chain code_chain ct true handles_ok valid = GMiss.
Proof. intros ct h v H. destruct ct; try contradiction; reflexivity. Qed.

(** ... while a non-error backend value that is still valid is a hit (the rule does not disable caching). *)
Example C12_values_still_replayed : eval_chain code_chain CT_SINGLE false true VTrue = GHit.
Proof. reflexivity. Qed.

Example C12_nonvacuous :
  let s := SList 1 [SSeq [SLeaf 2; SRaise 7; SLeaf 3]; SLeaf 4] in
  let ops := [OStart []; OFinish []; OStart [1]; OStart [0]; OFinish [0]; OStart [0;0]; OFinish [0;0];
              OStart [0;1]; OFinish [0;1]] in
  fails s = true /\ result (run s ops) = Some (Ko 7).
Proof. vm_compute. split; reflexivity. Qed.

Print Assumptions C12_error_propagates.
Print Assumptions C12_failed_chain.
Print Assumptions C12_errors_not_replayed.
