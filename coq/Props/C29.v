(** C29 — Script tasks run exactly the given command with correct staging.
    Only statements, closed by [exact], and their assumptions.  All statements are for every
    command text (list of code points, no length bound), every [textwrap.dedent] behaviour
    ([dedent] is universally quantified) and every nested input/output structure. *)
From Coq Require Import String List NArith Bool Arith.
From RV Require Import Model.Script Proofs.ScriptFacts Proofs.ScriptMain.
Import ListNotations.
Open Scope list_scope.

(** get_command_eof terminates for every command text and every prefix (the fuel of the model is
    never exhausted), returns the first candidate prefix, prefix1, prefix2 ... that is not a
    line of the command, and needs at most (number of lines) steps. *)
Theorem C29_eof_terminates_and_fresh : forall command prefix,
  exists k, get_command_eof command prefix = EofIs (eof_cand prefix k) /\
            ~ In (eof_cand prefix k) (split_nl command) /\
            (forall j, j < k -> In (eof_cand prefix j) (split_nl command)) /\
            k <= List.length (split_nl command).
Proof. exact eof_fresh_terminates. Qed.

(** The wrapper, read by a shell (here-document with a quoted delimiter), writes exactly
    command + newline to the command file, for every command text. *)
Theorem C29_heredoc_exact : forall command,
  exists e w, get_command_eof command eof_prefix0 = EofIs e /\
              get_wrapped_command command eof_prefix0 = Wrapped w /\
              w = render_template shipped_template command e /\
              sh_read w = ShOk (wrapper_items e (command ++ [NL])) /\
              heredoc_body w = Some (command ++ [NL]).
Proof. exact heredoc_exact. Qed.

(** ... and for every eof_prefix without a double quote or newline. *)
Theorem C29_heredoc_exact_any_prefix : forall command prefix,
  ~ In 34%N prefix -> ~ In NL prefix ->
  exists e w, get_command_eof command prefix = EofIs e /\
              get_wrapped_command command prefix = Wrapped w /\
              w = render_template shipped_template command e /\
              sh_read w = ShOk (wrapper_items e (command ++ [NL])) /\
              heredoc_body w = Some (command ++ [NL]).
Proof. exact heredoc_exact_prefix. Qed.

(** The freshness of the terminator is what makes this true: the same shell model cuts the
    file at a colliding line. *)
Theorem C29_collision_would_cut :
  heredoc_body (render_template shipped_template (lit "a" ++ [NL] ++ lit "EOF" ++ [NL] ++ lit "b") (lit "EOF"))
  = Some (lit "a" ++ [NL]).
Proof. exact heredoc_collision_cuts. Qed.

(** Shell choice: the text that runs is strip(dedent(command)); it is run as is iff it starts
    with the shebang marker, otherwise under the default shell; the result always starts with a shebang. *)
Theorem C29_shell_choice : forall (dedent : str -> str) command,
  let d := strip (dedent command) in
  (starts_with shebang d = true -> prepare_command dedent command = d) /\
  (starts_with shebang d = false -> prepare_command dedent command = default_shell ++ [NL] ++ d) /\
  starts_with shebang (prepare_command dedent command) = true.
Proof. exact shell_choice. Qed.

Theorem C29_interpreter_line : forall (dedent : str -> str) command,
  let d := strip (dedent command) in
  hd [] (split_nl (prepare_command dedent command)) =
  if starts_with shebang d then hd [] (split_nl d) else lit "#!/usr/bin/env bash".
Proof. exact interpreter_line. Qed.

Theorem C29_strip_only_whitespace : forall (dedent : str -> str) command,
  exists a b, dedent command = a ++ strip (dedent command) ++ b /\
              Forall (fun c => is_space c = true) a /\ Forall (fun c => is_space c = true) b.
Proof. exact strip_only_whitespace. Qed.

(** script(): it is rejected (AttributeError, nothing runs) exactly when some leaf of [inputs]
    (dict keys are leaves) is not a Staging object; it never fails to find a terminator. *)
Theorem C29_script_rejects_iff : forall (dedent : str -> str) command inputs outputs tp,
  script dedent command inputs outputs tp = ScriptAttributeError <->
  forallb is_staging (leaves_lr inputs) = false.
Proof. exact script_rejects. Qed.

Theorem C29_script_total : forall (dedent : str -> str) command inputs outputs tp,
  script dedent command inputs outputs tp <> ScriptOutOfFuel.
Proof. exact script_never_out_of_fuel. Qed.

(** Otherwise the command parts are exactly: cd (if tempdir), one stage command per input leaf,
    the wrapped prepared command (whose here-document reproduces it), one unstage command per
    Staging leaf of the preprocessed outputs; the text is their join. *)
Theorem C29_script_parts : forall (dedent : str -> str) command inputs outputs tp,
  forallb is_staging (leaves_lr inputs) = true ->
  exists w,
    get_wrapped_command (prepare_command dedent command) eof_prefix0 = Wrapped w /\
    heredoc_body w = Some (prepare_command dedent command ++ [NL]) /\
    script dedent command inputs outputs tp =
      ScriptOk (join_nl (map render_part (script_parts_spec command inputs outputs tp w)))
               (script_parts_spec command inputs outputs tp w)
               (map_ov input_arg_leaf inputs)
               (map_nv preprocess_output (outs_of outputs)).
Proof. exact script_ok. Qed.

(** Every input is staged before, every output unstaged after the (single) user command. *)
Theorem C29_staging_order : forall command inputs outputs tp w,
  let parts := script_parts_spec command inputs outputs tp w in
  (forall k lo re, In (LStaging k lo re) (leaves_lr inputs) ->
     before (render_stage k lo re) (PUser w) parts) /\
  (forall k lo re, In (LStaging k lo re) (leaves_lr (map_nv preprocess_output (outs_of outputs))) ->
     before (PUser w) (render_unstage k lo re) parts) /\
  filter is_user parts = [PUser w].
Proof. exact staging_order. Qed.

(** In the text, stage commands are whole lines before the wrapper, unstage commands whole lines after. *)
Theorem C29_full_command_text : forall command inputs outputs tp w,
  join_nl (map render_part (script_parts_spec command inputs outputs tp w)) =
  body_of (map render_part (cd_parts tp ++ map stage_part (iter_nested_value inputs)))
  ++ w
  ++ concat (map (fun l => NL :: l)
       (map render_part (map unstage_part (filter is_staging
          (iter_nested_value (map_nv preprocess_output (outs_of outputs))))))).
Proof. exact full_command_text. Qed.

(** Staging copies remote -> local, unstaging local -> remote; equal paths need no copy. *)
Theorem C29_stage_direction : forall k lo re, lo <> re ->
  render_stage k lo re = PCopy k re lo /\ render_unstage k lo re = PCopy k lo re.
Proof. intros k lo re H. split; [exact (stage_direction k lo re H)|exact (unstage_direction k lo re H)]. Qed.
Theorem C29_stage_same_path : forall k p, render_stage k p p = PSkip /\ render_unstage k p p = PSkip.
Proof. exact stage_same_path. Qed.

(** The returned value has the shape of [outputs]; leaf by leaf: the stdout file becomes the
    command's output, a File becomes a File with the same path, a staging pair its remote
    file/dir, anything else is returned unchanged. *)
Theorem C29_output_shape : forall outputs,
  let r := postprocess_script (map_nv preprocess_output outputs) in
  shape_ov r = shape_nv outputs /\ oleaves_lr r = map final_leaf (leaves_lr outputs).
Proof. exact output_shape. Qed.

Theorem C29_input_args_shape : forall inputs,
  shape_ov (map_ov input_arg_leaf inputs) = shape_nv inputs /\
  oleaves_lr (map_ov input_arg_leaf inputs) = map input_arg_leaf (leaves_lr inputs).
Proof. exact input_args_shape. Qed.

(** Non-vacuity: a command with the lines EOF and EOF1, a shebang-less text, nested inputs and
    outputs; the terminator is EOF2, the script is accepted, the file is the prepared command. *)
Example C29_nonvacuous :
  let dedent := fun s : str => s in
  let command := lit "  echo $X" ++ [NL] ++ lit "EOF" ++ [NL] ++ lit "EOF1" ++ [NL] in
  let inputs := NList [Leaf (LStaging KFile (lit "in.txt") (lit "/r/in.txt")); NTuple [Leaf (LStaging KDir (lit "d") (lit "d"))]] in
  let outputs := NDict [(Leaf (LOther 1), Leaf (LFile (lit "-"))); (Leaf (LOther 2), Leaf (LStaging KFile (lit "o") (lit "/r/o")))] in
  get_command_eof (prepare_command dedent command) eof_prefix0 = EofIs (lit "EOF2") /\
  forallb is_staging (leaves_lr inputs) = true /\
  (exists fc parts ia outs, script dedent command inputs (Some outputs) (Some (lit "/tmp/x")) = ScriptOk fc parts ia outs /\
     parts = [PCd (lit "/tmp/x"); PSkip; PCopy KFile (lit "/r/in.txt") (lit "in.txt");
              PUser (render_template shipped_template (prepare_command dedent command) (lit "EOF2"));
              PCopy KFile (lit "o") (lit "/r/o")]) /\
  oleaves_lr (postprocess_script (map_nv preprocess_output outputs))
    = [OSame (LOther 1); OSame (LOther 2); OResult; ORemote KFile (lit "/r/o")].
Proof.
  cbv zeta. split; [vm_compute; reflexivity|]. split; [vm_compute; reflexivity|].
  split; [|vm_compute; reflexivity].
  do 4 eexists. split; vm_compute; reflexivity.
Qed.

Print Assumptions C29_eof_terminates_and_fresh.
Print Assumptions C29_heredoc_exact.
Print Assumptions C29_shell_choice.
Print Assumptions C29_script_parts.
Print Assumptions C29_staging_order.
Print Assumptions C29_output_shape.
