(** C11 — The job arrayer hands off every job exactly once.
    Only statements, closed by [exact], a non-vacuity example, and their assumptions.

    The thread system (Model/Arrayer.v): one adder thread passing a stream of jobs to [add_job],
    and the array-monitor thread; one model step per access to shared state; a schedule is any
    list of (thread, clock reading).  Every theorem quantifies over ALL schedules, job streams,
    size bounds, stale times and clock readings.  [layout] says which of the two historically
    unlocked sites run under [self._lock]; [shipped] = neither, [fixed] = both. *)
From Coq Require Import List ZArith Bool Arith Permutation.
From RV Require Import Model.Arrayer Proofs.ArrayerInv Proofs.ArrayerFix Proofs.ArrayerThms.
Import ListNotations.
Open Scope list_scope.

(** ** holds for the code as shipped (and for every layout) *)

(** at every moment every job of the stream is in exactly one place: not yet passed to add_job, in
    the adder's hands, in [pending], in the monitor's hands, or handed to the submit callback *)
Theorem C11_conservation : forall L P jobs sched,
  Permutation jobs (places (run L P (init jobs) sched)).
Proof. exact conservation. Qed.

(** once activity has stopped (adder returned, monitor asleep or gone) the jobs added are exactly
    the jobs handed off plus the jobs still pending: nothing lost, nothing duplicated *)
Theorem C11_exactly_once_at_quiescence : forall L P jobs sched,
  let s := run L P (init jobs) sched in
  quiescent s = true -> Permutation jobs (flat (pend s) ++ submitted s).
Proof. exact exactly_once_at_quiescence. Qed.

(** no job is handed off twice; only added jobs are handed off; a handed-off job is not pending *)
Theorem C11_no_duplicates : forall L P jobs sched, NoDup jobs ->
  let s := run L P (init jobs) sched in
  NoDup (submitted s) /\ (forall j, In j (submitted s) -> In j jobs) /\
  (forall j, In j (submitted s) -> ~ In j (flat (pend s))).
Proof. exact no_duplicates. Qed.

(** every batch: non-empty, one description (task + options), at most [max] jobs, one job or at
    least [min] jobs ([params_ok]: min <= max, which JobArrayer.__init__ enforces) *)
Theorem C11_batches_wellformed : forall L P jobs sched, params_ok P ->
  forallb (batch_ok P) (batches (run L P (init jobs) sched)) = true.
Proof. exact batches_wellformed. Qed.

Theorem C11_init_params_ok : forall mn mx st P, init_params mn mx st = Some P ->
  params_ok P /\ pmin P = mn /\ pmax P = Nat.min mx MAX_ARRAY_SIZE /\ pstale P = st.
Proof. exact init_params_ok. Qed.

(** submit_pending_jobs never raises: its two pops always find their key *)
Theorem C11_submit_never_fails : forall L P jobs sched,
  let s := run L P (init jobs) sched in
  (forall d rest, mpc s = SPop1 d rest -> pop d (pend s) <> None) /\
  (forall d rest js, mpc s = SPop2 d rest js -> pop d (stamps s) <> None).
Proof. exact submit_never_fails. Qed.

(** ** violated by the code as shipped *)

(** "the monitor never fails": the unlocked scan of get_stale_descrs meets an add_job that inserts a
    new description between two iterator steps -> RuntimeError reaches on_error *)
Theorem C11_monitor_never_fails_refuted : exists P jobs sched,
  params_ok P /\ NoDup jobs /\ errors (run shipped P (init jobs) sched) = [ERuntime].
Proof.
  exists (mkparams 2 3 (-1)), [j0; j1], w_runtime. split; [unfold params_ok; simpl; auto|]. split.
  - repeat constructor; simpl; intuition discriminate.
  - exact (runtime_error_witness shipped eq_refl).
Qed.

(** ... or reads pending_timestamps[descr] after add_job created pending[descr] and before it
    stored the timestamp -> KeyError reaches on_error *)
Theorem C11_monitor_keyerror_refuted : exists P jobs sched,
  params_ok P /\ NoDup jobs /\ errors (run shipped P (init jobs) sched) = [EKey].
Proof.
  exists (mkparams 2 3 5), [j0; j1], w_key. split; [unfold params_ok; simpl; auto|]. split.
  - repeat constructor; simpl; intuition discriminate.
  - exact (key_error_witness shipped eq_refl).
Qed.

(** "once activity stops the pending count equals the number of jobs not yet handed off": the
    unlocked `num_pending -= len(jobs)` overwrites a concurrent increment; no error is raised *)
Theorem C11_num_pending_refuted : exists P jobs sched,
  let s := run shipped P (init jobs) sched in
  params_ok P /\ NoDup jobs /\ quiescent s = true /\ errors s = [] /\
  npend s <> Z.of_nat (length (flat (pend s))) /\
  npend s <> (Z.of_nat (length jobs) - Z.of_nat (length (submitted s)))%Z.
Proof.
  exists (mkparams 2 3 (-1)), [j0; j1'], (w_lost false).
  split; [unfold params_ok; simpl; auto|]. split; [repeat constructor; simpl; intuition discriminate|].
  vm_compute. repeat split; try reflexivity; discriminate.
Qed.

(** the same two defects for every layout that leaves the respective site unlocked *)
Theorem C11_unlocked_scan_fails : forall L, stale_locked L = false ->
  errors (run L (mkparams 2 3 (-1)) (init [j0; j1]) w_runtime) = [ERuntime] /\
  errors (run L (mkparams 2 3 5) (init [j0; j1]) w_key) = [EKey].
Proof. intros L H. split; [exact (runtime_error_witness L H)|exact (key_error_witness L H)]. Qed.

Theorem C11_unlocked_decrement_drifts : forall L, cnt_locked L = false ->
  let s := run L (mkparams 2 3 (-1)) (init [j0; j1']) (w_lost (stale_locked L)) in
  quiescent s = true /\ errors s = [] /\ flat (pend s) = [j1'] /\ submitted s = [j0] /\ npend s = 0%Z.
Proof. exact lost_update_witness. Qed.

(** ** the repaired variant satisfies the whole property *)

(** scan under the lock: the monitor never reports an error, for any schedule *)
Theorem C11_monitor_never_fails_fixed : forall L, stale_locked L = true -> forall P jobs sched,
  errors (run L P (init jobs) sched) = [].
Proof. exact never_fails_stale_locked. Qed.

(** decrement under the lock: whenever activity has stopped, num_pending is the number of jobs in
    [pending], which is the number of jobs added and not yet handed off *)
Theorem C11_num_pending_exact_fixed : forall L, cnt_locked L = true -> forall P jobs sched,
  let s := run L P (init jobs) sched in
  quiescent s = true ->
  npend s = Z.of_nat (length (flat (pend s))) /\
  npend s = (Z.of_nat (length jobs) - Z.of_nat (length (submitted s)))%Z.
Proof. exact counter_exact_cnt_locked. Qed.

(* NOT PROVED (liveness): under a fair schedule in which the clock eventually exceeds every
   timestamp by more than stale_time, every added job is eventually submitted.  The safety half of
   "exactly once" is proved above (never twice, never lost: at quiescence a job is either submitted
   or still in [pending]); that the monitor does submit stale groups is exercised on the real class
   by the final drain of every harness execution and witnessed below for one stream. *)

(** ** Non-vacuity: the repaired system runs, forms an array, splits an oversize group, submits a
    script job directly, and comes to rest with everything handed off exactly once *)
Example C11_nonvacuous :
  let jobs := [mkjob 0 0 false; mkjob 1 0 false; mkjob 2 7 true; mkjob 3 0 false] in
  let P := mkparams 2 2 (-1) in
  let s := run fixed P (init jobs) (repeat (TA, 0%Z) 25 ++ repeat (TM, 5%Z) 38) in
  params_ok P /\ NoDup jobs /\ quiescent s = true /\ errors s = [] /\ pend s = [] /\ npend s = 0%Z /\
  map enc_out (rev (outs s)) = [[0; 2]; [1; 0; 1]; [1; 3]] /\ mpc s = MWait /\
  init_params 2 (200 * 100) (-1) = Some (mkparams 2 (100 * 100) (-1)) /\ init_params 3 2 0 = None.
Proof.
  split; [unfold params_ok; simpl; auto|]. split; [repeat constructor; simpl; intuition discriminate|].
  vm_compute. repeat split; reflexivity.
Qed.

Print Assumptions C11_conservation.
Print Assumptions C11_exactly_once_at_quiescence.
Print Assumptions C11_no_duplicates.
Print Assumptions C11_batches_wellformed.
Print Assumptions C11_submit_never_fails.
Print Assumptions C11_monitor_never_fails_refuted.
Print Assumptions C11_monitor_keyerror_refuted.
Print Assumptions C11_num_pending_refuted.
Print Assumptions C11_monitor_never_fails_fixed.
Print Assumptions C11_num_pending_exact_fixed.
Print Assumptions C11_nonvacuous.
