(** C06 — Each distinct call runs at most once per execution.
    Model: Model/JobMachine.v; every op list = every workflow shape, completion order and content
    of the backend cache.  [jnocse] marks a call that opted out (cache_scope=NONE or no provenance).

    "Every duplicate receives the same result or error" is proved over whole runs (C06_duplicates_agree, from the
    phase/event discipline of the machine, Proofs/JobDup2.v) for jobs that collapse into a pending twin, and
    C06_preset_is_final + C06_duplicate_cse_hit_partial for jobs served by the same-execution look-up; the hand-over
    steps are also stated on their own (C06_duplicate_*_partial).  NOT PROVED: each distinct expression reached from
    one parent job is evaluated once (_pending_expr is not in the model). *)
From Coq Require Import List ZArith Bool Arith Lia.
From RV Require Model.PendingExpr Proofs.PendingExprFacts.
From RV Require Import Model.JobMachine Proofs.JobBase Proofs.JobRes Proofs.JobRes3
  Proofs.JobOnce Proofs.JobOnce2 Proofs.JobOnce3 Proofs.JobCtx Proofs.JobDup Proofs.JobDup2 Proofs.JobDup3.
Import ListNotations.
Open Scope list_scope.

(** Two jobs for the same (task hash, args hash, context) that did not opt out are never both
    handed to an executor. *)
Theorem C06_one_submitter_per_key : forall c ops j1 j2 x1 x2,
  pending_owner_safe (vr c) = true -> ctx_exact (vr c) = true ->
  getj (run c ops) j1 = Some x1 -> getj (run c ops) j2 = Some x2 ->
  jnocse x1 = false -> jnocse x2 = false ->
  jkey x1 = jkey x2 -> jctx x1 = jctx x2 ->
  1 <= jsubmits x1 -> 1 <= jsubmits x2 -> j1 = j2.
Proof.
  intros c ops j1 j2 x1 x2 Hs Hx H1 H2 N1 N2 Ek Ec S1 S2.
  apply (k_uniq _ _ (K_run c Hs ops) Hx j1 j2 x1 x2 H1 H2 N1 N2 S1 S2). unfold kc. congruence.
Qed.

(** ... and no job is handed over twice. *)
Theorem C06_job_submitted_at_most_once : forall c ops j x,
  release_if_holds (vr c) = true -> (forall r, (0 <= limit_of c r)%Z) -> Forall wf_op ops ->
  getj (run c ops) j = Some x -> jsubmits x <= 1.
Proof. intros c ops j x H1 H2 H3. exact (Sle_run c H1 H2 ops H3 j x). Qed.

(** A call that ran stays findable: its key is registered in _pending_jobs until it is recorded
    in the backend, so a later twin collapses into it or gets its recorded result. *)
Theorem C06_submitter_stays_visible : forall c ops j x,
  pending_owner_safe (vr c) = true -> ctx_exact (vr c) = true ->
  getj (run c ops) j = Some x -> jnocse x = false -> 1 <= jsubmits x ->
  In ((jkey x, jctx x), j) (pending (run c ops)) \/ exists o, In ((jkey x, jctx x), o) (recorded (run c ops)).
Proof. intros c ops j x Hs Hx. exact (k_cov _ _ (K_run c Hs ops) Hx j x). Qed.

(** A job only ever collapses into a job that records provenance (so the call node whose hash the
    duplicate adopts is really recorded). *)
Theorem C06_twin_records_provenance : forall c ops t j,
  pending_owner_safe (vr c) = true -> In (t, j) (subs (run c ops)) ->
  exists xt, getj (run c ops) t = Some xt /\ jprov xt = true.
Proof.
  intros c ops t j Hs Hin. destruct (both_run c Hs ops) as [_ S].
  destruct (S t j Hin) as (xt & xj & A & B & E & P). exists xt. split; assumption.
Qed.

(** Every duplicate receives the same result or error — the hand-over steps, for every state of the machine.
    (1) When job t settles with value v, each job that collapsed into it gets v as its preset result and a Done event. *)
Theorem C06_duplicate_handed_value_partial : forall c s t v j xj,
  getj s t <> None -> In j (dups_of s t) -> NoDup (dups_of s t) -> j <> t -> getj s j = Some xj ->
  getj (settle c s t (Ok v)) j = Some (mark_cached xj (Some v) PCacheQ) /\
  In (EvDone j) (queue (settle c s t (Ok v))).
Proof. exact settle_hands_value. Qed.

(** (2) When t settles with error e, each job that collapsed into it is settled with e at once. *)
Theorem C06_duplicate_handed_error_partial : forall c s t e j xj,
  getj s t <> None -> In j (dups_of s t) -> NoDup (dups_of s t) -> j <> t -> getj s j = Some xj ->
  exists y, getj (settle c s t (Ko e)) j = Some y /\ jphase y = PSettled (Ko e).
Proof. exact settle_hands_error. Qed.

(** (3) The Done event of a job with a preset result queues a Resolve event carrying exactly that result, and
    (4) a Resolve event settles the job with the value it carries. *)
Theorem C06_duplicate_done_resolve_partial : forall c s j x v,
  getj s j = Some x ->
  (jpreset x = Some v -> In (EvResolve j v) (queue (done_job c s j))) /\
  (~ In j (dups_of s j) -> exists y, getj (resolve_job c s j v) j = Some y /\ jphase y = PSettled (Ok v)).
Proof. intros c s j x v Hx. split; [apply done_hands_preset; exact Hx|apply (resolve_settles c s j x v Hx)]. Qed.

(** (5) A job served by the same-execution look-up gets the recorded value as its preset result. *)
Theorem C06_duplicate_cse_hit_partial : forall c s j x co v,
  getj s j = Some x -> jnocse x = false -> lookup_pending s (jkey x, jctx x) = None ->
  cse_eff c s (jkey x) (jctx x) = Some (Ok v) ->
  exists y, getj (exec_job c s j co) j = Some y /\ jpreset y = Some v.
Proof. exact exec_cse_hit_hands_value. Qed.

(** Every duplicate receives the same result or error, over whole runs: whatever the workflow, the completion order and
    the backend's answers, a job that collapsed into a pending twin ends with exactly that twin's result or error. *)
Theorem C06_duplicates_agree : forall c ops t j xt xj o o',
  pending_owner_safe (vr c) = true ->
  In (t, j) (subs (run c ops)) -> getj (run c ops) t = Some xt -> getj (run c ops) j = Some xj ->
  jphase xt = PSettled o -> jphase xj = PSettled o' -> o' = o.
Proof. intros c ops t j xt xj o o' Hs. exact (duplicates_agree c Hs ops t j xt xj o o'). Qed.

(** A result known in advance (handed over by the twin, or found by the same-execution look-up) is the result the job
    ends with. *)
Theorem C06_preset_is_final : forall c ops j x v o,
  pending_owner_safe (vr c) = true ->
  getj (run c ops) j = Some x -> jpreset x = Some v -> jphase x = PSettled o -> o = Ok v.
Proof.
  intros c ops j x v o Hs Hx Hv Hp.
  destruct (q_pr _ _ (Q_run c Hs ops) j x v Hx Hv) as [A|[A|A]]; congruence.
Qed.

Definition c06_cfg_fixed : config := {| limit_of := fun _ => 1%Z; dryrun := false; vr := all_fixed |}.

(** Each job ends once: a job that has its result or error keeps exactly it, whatever happens afterwards (later
    completions, duplicates being told, re-nominations). *)
Theorem C06_outcome_final : forall c ops ops' j x o,
  pending_owner_safe (vr c) = true ->
  getj (run c ops) j = Some x -> jphase x = PSettled o ->
  exists x', getj (run c (ops ++ ops')) j = Some x' /\ jphase x' = PSettled o.
Proof.
  intros c ops ops' j x o Hs Hx P. apply (settled_forever c Hs ops ops' j o). exists x. auto.
Qed.

(** Non-vacuity: job 1 collapses into the running job 0; job 0 finishes with 7; job 1 ends with 7. *)
Example C06_duplicates_agree_nonvacuous :
  let ops := [ ONew 5 0 [] false true false; OPop 0 0 CMiss; ONew 5 0 [] false true false; OPop 0 1 CMiss;
               OComplete 0 true 0%Z; OPop 1 0 CMiss; OEval 0 (Ok 7%Z); OPop 3 0 CMiss; OPop 1 1 CMiss; OPop 3 1 CMiss ] in
  let s := run (c06_cfg_fixed) ops in
  subs s = [(0, 1)] /\ map jphase (jobs s) = [PSettled (Ok 7%Z); PSettled (Ok 7%Z)] /\ map jsubmits (jobs s) = [1; 0].
Proof. vm_compute. repeat split; reflexivity. Qed.

(** As shipped (submitting overwrites the _pending_jobs entry, _finalize_job pops it whoever owns it):
    job 0 runs; job 1, a twin under a parent without provenance, overwrites the entry, finishes and
    pops it; job 2, an ordinary twin, finds neither a pending nor a recorded twin and runs too. *)
Definition c06_variant : variant :=
  {| release_if_holds := true; recheck_on_skip := true; ctx_strict := false; pending_owner_safe := false;
     ctx_exact := true |}.
Definition c06_cfg (v : variant) : config := {| limit_of := fun _ => 1%Z; dryrun := false; vr := v |}.
Definition c06_witness : list op :=
  [ ONew 5 0 [] false true false; OPop 0 0 CMiss;
    ONew 5 0 [] false false false; OPop 0 1 CMiss; OComplete 1 true 0%Z; OPop 1 1 CMiss;
    OEval 1 (Ok 7%Z); OPop 3 1 CMiss;
    ONew 5 0 [] false true false; OPop 0 2 CMiss ].

Theorem C06_refuted_as_shipped :
  let s := run (c06_cfg c06_variant) c06_witness in
  map jsubmits (jobs s) = [1; 1; 1] /\ map jnocse (jobs s) = [false; true; false] /\
  map jkey (jobs s) = [5; 5; 5] /\ map jphase (jobs s) = [PSubmitted; PSettled (Ok 7%Z); PSubmitted].
Proof. vm_compute. repeat split; reflexivity. Qed.

Example C06_witness_fixed :
  let s := run (c06_cfg all_fixed) c06_witness in
  map jsubmits (jobs s) = [1; 1; 0] /\ map jphase (jobs s) = [PSubmitted; PSettled (Ok 7%Z); PCollapsed 0].
Proof. vm_compute. split; reflexivity. Qed.

(** The current code (ctx_exact = false): the context of a call is a tag on its CallNode, a CallNode is shared by all
    calls with one call hash, and a context-free look-up skips tagged CallNodes.  Job 0 (no context) runs and is
    recorded; job 1, the same call under a context, runs (a different call: C05) and, having the same result, tags
    the same CallNode; job 2, the same call without a context again, finds no untagged CallNode and — in an execution
    without the backend cache (cache=False), where nothing else can answer — runs a second time. *)
Definition c06_ctx_variant : variant :=
  {| release_if_holds := true; recheck_on_skip := true; ctx_strict := true; pending_owner_safe := true;
     ctx_exact := false |}.
Definition c06_ctx_witness : list op :=
  [ ONew 5 0 [] false true false; OPop 0 0 CMiss; OComplete 0 true 0%Z; OPop 1 0 CMiss; OEval 0 (Ok 7%Z); OPop 3 0 CMiss;
    ONew 5 2 [] false true false; OPop 0 1 CMiss; OComplete 1 true 0%Z; OPop 1 1 CMiss; OEval 1 (Ok 7%Z); OPop 3 1 CMiss;
    ONew 5 0 [] false true false; OPop 0 2 CMiss ].

Theorem C06_refuted_context_twin :
  let s := run (c06_cfg c06_ctx_variant) c06_ctx_witness in
  map jsubmits (jobs s) = [1; 1; 1] /\ map jctx (jobs s) = [0; 2; 0] /\ map jkey (jobs s) = [5; 5; 5] /\
  map jnocse (jobs s) = [false; false; false].
Proof. vm_compute. repeat split; reflexivity. Qed.

Example C06_context_twin_exact :
  let s := run (c06_cfg all_fixed) c06_ctx_witness in map jsubmits (jobs s) = [1; 1; 0].
Proof. vm_compute. reflexivity. Qed.

(** "Each distinct expression reached from the same parent job is evaluated once": the parent's table of pending
    expressions (Model/PendingExpr.v — demands arriving over time, jobs concluding in between) creates exactly one
    child job per distinct expression demanded, whenever the demands arrive, as long as entries live until the parent
    is finalized (the shape the translator finds in `_evaluate_apply` / `_finalize_job`). *)
Theorem C06_one_job_per_expression :
  forall evs e, count_occ Nat.eq_dec (PendingExpr.child_jobs true evs) e = if PendingExpr.memb e (PendingExpr.demands evs) then 1 else 0.
Proof. exact PendingExprFacts.finalized_one_job_per_expression. Qed.

Example C06_one_job_per_expression_nonvacuous :
  PendingExpr.child_jobs true [PendingExpr.Demand 7; PendingExpr.Demand 8; PendingExpr.Conclude 7; PendingExpr.Demand 7] = [7; 8] /\
  PendingExpr.child_jobs false [PendingExpr.Demand 7; PendingExpr.Demand 8; PendingExpr.Conclude 7; PendingExpr.Demand 7] = [7; 8; 7].
Proof. vm_compute. split; reflexivity. Qed.

Print Assumptions C06_one_job_per_expression.
Print Assumptions C06_one_submitter_per_key.
Print Assumptions C06_duplicates_agree.
Print Assumptions C06_preset_is_final.
Print Assumptions C06_outcome_final.
Print Assumptions C06_duplicate_handed_value_partial.
Print Assumptions C06_duplicate_handed_error_partial.
Print Assumptions C06_duplicate_done_resolve_partial.
Print Assumptions C06_duplicate_cse_hit_partial.
Print Assumptions C06_refuted_context_twin.
Print Assumptions C06_job_submitted_at_most_once.
Print Assumptions C06_submitter_stays_visible.
Print Assumptions C06_twin_records_provenance.
Print Assumptions C06_refuted_as_shipped.
