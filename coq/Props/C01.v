(** C01 — Scheduler evaluation agrees with the graph-reduction semantics.
    Model: Model/EvalTree.v — the workflow as a tree of calls (task calls with literal results,
    failing tasks, parallel containers of calls, seq, catch, catch_all with and without a recover task); [adm] is the documented reduction
    semantics (set of admissible outcomes: with several failing children of one container any of
    their errors may surface); the machine lets the schedule decide which call starts and which
    task function finishes next (any executor, any completion order).

    Proved for every program of this language and every schedule.  NOT PROVED in Coq (decided by the
    correspondence run and the reference-evaluator oracle on the real scheduler only): lazy
    operators, partial tasks, expression-valued defaults, cond, map_, flat_map,
    apply_func, fork_thread/join_thread, apply_tags, and the executor modes (thread / process /
    async), which differ only in how arguments and results are serialised. *)
From Coq Require Import List ZArith Bool Arith.
From RV Require Import Model.EvalTree Proofs.EvalTreeWF Proofs.EvalTreeRun Proofs.EvalTreeRef Proofs.EvalTreeDet.
Import ListNotations.
Open Scope list_scope.

(** Whatever the schedule, a run that has produced a result has produced an admissible one. *)
Theorem C01_sched_refines_spec_partial : forall s ops o, result (run s ops) = Some o -> adm s o.
Proof. exact run_sound. Qed.

(** The result, once there, never changes (later completions of orphaned calls are ignored). *)
Theorem C01_result_stable : forall s ops ops' o,
  result (run s ops) = Some o -> result (run s (ops ++ ops')) = Some o.
Proof. exact run_result_stable. Qed.

(** Value or error, never both: a program either fails under every schedule or under none. *)
Theorem C01_value_xor_error : forall s,
  (fails s = true -> (exists e, adm s (Ko e)) /\ forall v, ~ adm s (Ok v)) /\
  (fails s = false -> (exists v, adm s (Ok v)) /\ forall e, ~ adm s (Ko e)).
Proof. exact fails_spec. Qed.

(** The executable reference semantics used by the correspondence run decides [adm]. *)
Theorem C01_reference_decides : forall s o, admb s o = true <-> adm s o.
Proof. exact admb_adm. Qed.

(** catch_all is positional: whatever finished first, the error that surfaces is the error of the first
    failing term of the nested value (every term before it succeeded). *)
Theorem C01_catch_all_positional : forall cs ops e,
  result (run (SAll cs) ops) = Some (Ko e) ->
  exists pre c post vs, cs = pre ++ c :: post /\ Forall2 (fun c v => adm c (Ok v)) pre vs /\ adm c (Ko e).
Proof.
  intros cs ops e H. apply run_sound in H.
  inversion H as [ | | | | | | | | |cs0 pre c0 post vs0 e0 Heq Hpre Hc| | ]; subst. eauto 8.
Qed.

(** With a recover task, catch_all never fails itself: either every term succeeded (the list of values), or the recover
    task's result over every term's value or error, each admissible for its term. *)
Theorem C01_catch_all_recover : forall cs ops o,
  result (run (SAllRec cs) ops) = Some o ->
  (exists vs, o = Ok (VList vs) /\ Forall2 (fun c v => adm c (Ok v)) cs vs) \/
  (exists outs e, o = Ok (rec_value outs) /\ Forall2 (fun c x => adm c x) cs outs /\ In (Ko e) outs).
Proof.
  intros cs ops o H. apply run_sound in H.
  inversion H as [ | | | | | | | | | |cs0 vs HF|cs0 outs e Ho He]; subst; [left|right]; eauto.
Qed.

(** ... and it waits for every term: the later term fails first, the earlier (deeper) one decides. *)
Example C01_catch_all_nonvacuous :
  let s := SAll [SList 0 [SRaise 1]; SRaise 2] in
  let early := [OStart []; OFinish []; OStart [1]; OFinish [1]] in
  let rest := [OStart [0]; OFinish [0]; OStart [0;0]; OFinish [0;0]] in
  result (run s early) = None /\ result (run s (early ++ rest)) = Some (Ko 1%Z) /\ admb s (Ko 2%Z) = false.
Proof. vm_compute. repeat split; reflexivity. Qed.

(** Exactly the value the reduction yields: a program in which no parallel container has two failing children
    ([detb]; in particular every program that does not fail twice at once) has ONE admissible outcome, so all
    schedules, executors and completion orders that finish return the same value or raise the same error. *)
Theorem C01_one_outcome : forall s o1 o2, detb s = true -> adm s o1 -> adm s o2 -> o1 = o2.
Proof. intros s o1 o2 H. exact (adm_unique s H o1 o2). Qed.

Theorem C01_schedule_independent : forall s ops1 ops2 o1 o2,
  detb s = true -> result (run s ops1) = Some o1 -> result (run s ops2) = Some o2 -> o1 = o2.
Proof. exact run_schedule_independent. Qed.

(** ... and the side condition is needed: two failing children of one list may surface either error. *)
Example C01_two_failures_two_outcomes :
  let s := SList 0 [SRaise 1; SRaise 2] in
  detb s = false /\
  result (run s [OStart []; OFinish []; OStart [0]; OFinish [0]]) = Some (Ko 1%Z) /\
  result (run s [OStart []; OFinish []; OStart [1]; OFinish [1]]) = Some (Ko 2%Z).
Proof. vm_compute. repeat split; reflexivity. Qed.

(** Non-vacuity: two schedules of one program, with an orphaned sibling, same admissible result. *)
Example C01_nonvacuous :
  let s := SList 1 [SCatch (SSeq [SLeaf 2; SRaise 7; SLeaf 3]); SList 4 [SLeaf 5; SLeaf 6]] in
  let o := Ok (VList [VInt 1; VList [VRec 7; VList [VInt 4; VList [VInt 5; VInt 6]]]]) in
  let sched1 := [OStart []; OFinish []; OStart [0]; OStart [1]; OFinish [0]; OFinish [1]; OStart [0;0]; OFinish [0;0];
                 OStart [0;0;0]; OFinish [0;0;0]; OStart [0;0;1]; OStart [1;0]; OStart [1;1]; OFinish [1;1];
                 OFinish [0;0;1]; OFinish [1;0]] in
  let sched2 := [OStart []; OFinish []; OStart [1]; OFinish [1]; OStart [1;1]; OStart [1;0]; OFinish [1;0]; OFinish [1;1];
                 OStart [0]; OFinish [0]; OStart [0;0]; OFinish [0;0]; OStart [0;0;0]; OFinish [0;0;0];
                 OStart [0;0;1]; OFinish [0;0;1]] in
  result (run s sched1) = Some o /\ result (run s sched2) = Some o /\ admb s o = true.
Proof. vm_compute. repeat split; reflexivity. Qed.

Print Assumptions C01_sched_refines_spec_partial.
Print Assumptions C01_result_stable.
Print Assumptions C01_value_xor_error.
Print Assumptions C01_reference_decides.
Print Assumptions C01_catch_all_positional.
Print Assumptions C01_catch_all_recover.
Print Assumptions C01_one_outcome.
Print Assumptions C01_schedule_independent.
