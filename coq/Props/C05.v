(** C05 — Results are never shared between calls with different contexts.
    Model: Model/JobMachine.v. Within an execution a job obtains another call's result in two ways:
    by collapsing into a pending twin (Job.collapse) or by the backend's CSE lookup among the call
    nodes recorded in this execution.  [jctx] is the context hash, 0 for the empty context.
    (Lookups among call nodes of *earlier* executions use the same SQL filter; in the model they are
    answers of the environment, and are reached by the correspondence run and the oracle only.) *)
From Coq Require Import List ZArith Bool Arith Lia.
From RV Require Import Model.JobMachine Proofs.JobBase Proofs.JobOnce Proofs.JobOnce2 Proofs.JobCtx.
Import ListNotations.
Open Scope list_scope.

(** A job only ever collapses into a job with the same task/args key and the same context. *)
Theorem C05_collapse_same_context : forall c ops t j,
  pending_owner_safe (vr c) = true -> In (t, j) (subs (run c ops)) ->
  exists xt xj, getj (run c ops) t = Some xt /\ getj (run c ops) j = Some xj /\
                jkey xt = jkey xj /\ jctx xt = jctx xj.
Proof.
  intros c ops t j Hs Hin. destruct (both_run c Hs ops) as [_ S].
  destruct (S t j Hin) as (xt & xj & A & B & E & _). exists xt, xj. unfold kc in E. injection E as E1 E2. auto.
Qed.

(** With the context-strict lookup, a CSE hit for (key, ctx) is a call node recorded, in this
    execution, by a job with exactly that key and that context — also for the empty context. *)
Theorem C05_cse_same_context : forall c ops key ctx o,
  pending_owner_safe (vr c) = true -> ctx_strict (vr c) = true ->
  cse_lookup c (run c ops) key ctx = Some o ->
  exists j x, getj (run c ops) j = Some x /\ jkey x = key /\ jctx x = ctx /\ jprov x = true.
Proof.
  intros c ops key ctx o Hs Hc H. apply (cse_lookup_strict c _ key ctx o Hc) in H.
  destruct (both_run c Hs ops) as [R _]. destruct (R _ _ H) as (j & x & Hx & Hk & Hp).
  unfold kc in Hk. injection Hk as E1 E2. exists j, x. auto.
Qed.

(** The look-up as the code performs it ([cse_eff]: a context-free look-up may additionally miss once a twin was
    recorded under a context) only ever answers less, so the same holds for it, whatever [ctx_exact] is. *)
Theorem C05_cse_eff_same_context : forall c ops key ctx o,
  pending_owner_safe (vr c) = true -> ctx_strict (vr c) = true ->
  cse_eff c (run c ops) key ctx = Some o ->
  exists j x, getj (run c ops) j = Some x /\ jkey x = key /\ jctx x = ctx /\ jprov x = true.
Proof.
  intros c ops key ctx o Hs Hc H. apply (C05_cse_same_context c ops key ctx o Hs Hc).
  unfold cse_eff in H. destruct (negb (ctx_exact (vr c)) && Nat.eqb ctx 0 && ctx_twin_recorded (run c ops) key);
    [discriminate|exact H].
Qed.

(** As shipped (filter applied only when the job has a context): job 0 runs under context 1 and
    records 7; job 1, the same call with the empty context, is served 7 by the CSE lookup. *)
Definition c05_variant : variant :=
  {| release_if_holds := true; recheck_on_skip := true; ctx_strict := false; pending_owner_safe := true;
     ctx_exact := true |}.
Definition c05_cfg (v : variant) : config := {| limit_of := fun _ => 1%Z; dryrun := false; vr := v |}.
Definition c05_witness : list op :=
  [ ONew 5 1 [] false true false; OPop 0 0 CMiss; OComplete 0 true 0%Z; OPop 1 0 CMiss;
    OEval 0 (Ok 7%Z); OPop 3 0 CMiss;
    ONew 5 0 [] false true false; OPop 0 1 CMiss ].

Theorem C05_refuted_as_shipped :
  let s := run (c05_cfg c05_variant) c05_witness in
  map jctx (jobs s) = [1; 0] /\ map jcached (jobs s) = [false; true] /\ map jpreset (jobs s) = [None; Some 7%Z] /\
  map jsubmits (jobs s) = [1; 0].
Proof. vm_compute. repeat split; reflexivity. Qed.

Example C05_witness_fixed :
  let s := run (c05_cfg all_fixed) c05_witness in
  map jcached (jobs s) = [false; false] /\ map jsubmits (jobs s) = [1; 1].
Proof. vm_compute. split; reflexivity. Qed.

Print Assumptions C05_collapse_same_context.
Print Assumptions C05_cse_same_context.
Print Assumptions C05_refuted_as_shipped.
Print Assumptions C05_cse_eff_same_context.
