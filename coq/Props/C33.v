(** C33 — Status filters agree with displayed statuses.
    "For every recorded job and execution, filtering the call graph by a status (RUNNING,
    CACHED, FAILED, DONE) returns exactly the records whose displayed status is that value."

    Only statements (closed by [exact]), a witness, a non-vacuity example and the assumptions.

    Quantification: ALL recording histories (lists of record_job_start / record_value +
    record_call_node / record_job_end operations, any length, any interleaving of any number
    of executions and jobs, killed runs included: a job that is never ended stays RUNNING).
    [jobs_agree c d s]: the query [CallGraphQuery.filter_job_statuses([s]).all()] succeeds,
    returns no duplicate, only ids of recorded jobs, and a recorded job is returned iff
    [Job.status] is [s].  [execs_agree] likewise for filter_execution_statuses / Execution.status.

    As shipped the property is VIOLATED (C33_jobs_refuted, C33_execs_refuted): a job whose own
    evaluation was a cache hit (common sub-expression elimination onto a failing job, or a re-run
    whose single reduction is cached while a child fails again) is recorded with cached = true
    and an ErrorValue result; it is displayed FAILED and also returned by the CACHED job filter,
    and when it is the root job its execution is displayed FAILED and returned by the DONE
    execution filter.
    The theorems therefore come in two variants: [shipped] (refuted + what still holds) and
    [fixed] (the CACHED term excludes error results), plus the generic statement for any
    configuration that passes the finite check [cfg_ok] — the translator regenerates the
    configuration from the current source and the tie lemma re-runs that check. *)
From Coq Require Import List String Bool NArith.
From RV Require Import Model.Status Proofs.StatusFacts.
Import ListNotations.
Open Scope list_scope.
Open Scope N_scope.

(** Every recording history produces a database of the recorded shape. *)
Theorem C33_recorded_wf : forall h d, run empty_db h = Some d -> wf d.
Proof. exact recorded_wf. Qed.

(** The boolean shape check run on databases written by the real scheduler implies [wf]. *)
Theorem C33_checked_wf : forall d, wfb d = true -> wf d.
Proof. exact wfb_wf. Qed.

(** Generic: any configuration passing the finite row check satisfies the property on every
    recorded database.  (The tie lemma in Gen/C33Gen.v instantiates this with the regenerated
    configuration when the source is in the repaired variant.) *)
Theorem C33_jobs_of_ok : forall c, cfg_ok_jobs c = true ->
  forall h d, run empty_db h = Some d -> forall s, jobs_agree c d s.
Proof. intros c H h d R. exact (jobs_agree_of_ok c H d (recorded_wf h d R)). Qed.

Theorem C33_execs_of_ok : forall c, cfg_ok_execs c = true ->
  forall h d, run empty_db h = Some d -> forall s, In s exec_status -> execs_agree c d s.
Proof. intros c H h d R. exact (execs_agree_of_ok c H d (recorded_wf h d R)). Qed.

(** The property for the repaired variant, all histories, all four statuses. *)
Theorem C33_jobs_fixed : forall h d, run empty_db h = Some d -> forall s, jobs_agree fixed d s.
Proof. apply C33_jobs_of_ok. vm_compute. reflexivity. Qed.

(** Executions display RUNNING, FAILED or DONE ([exec_status]). *)
Theorem C33_execs_fixed : forall h d, run empty_db h = Some d ->
  forall s, In s exec_status -> execs_agree fixed d s.
Proof. apply C33_execs_of_ok. vm_compute. reflexivity. Qed.

(** The fourth status on executions: no execution ever displays CACHED; the execution filter
    for CACHED returns the executions whose root job displays CACHED, shown as DONE
    (`--exec-status` documents RUNNING, FAILED, DONE only). *)
Theorem C33_execs_cached_fixed : forall h d, run empty_db h = Some d ->
  exists res, filter_execs fixed d [CACHED] = Some res /\ NoDup res
    /\ (forall i, In i res -> exists e, In e (execs d) /\ e_id e = i)
    /\ (forall e, In e (execs d) -> exec_display fixed d e <> DStatus CACHED
          /\ exists j, job_of d e = Some j
             /\ (In (e_id e) res <-> job_display fixed d j = DStatus CACHED)
             /\ (In (e_id e) res -> exec_display fixed d e = DStatus DONE)).
Proof. intros h d R. exact (execs_cached_fixed d (recorded_wf h d R)). Qed.

(** As shipped: refuted.  History = one execution; root job 1; job 2 fails (ErrorValue call
    node 10); job 3 is the same call, collapsed onto job 2 (cached, same call node). *)
Definition witness : list op :=
  [OStartJob 1 (Some 1); OStartJob 2 None; OStartJob 3 None;
   ORecordCallNode 10 20 err; OEndJob 2 None false 10; OEndJob 3 None true 10].

Theorem C33_jobs_refuted : exists h d j,
  run empty_db h = Some d /\ In j (jobs d) /\ j_id j = 3
  /\ job_display shipped d j = DStatus FAILED
  /\ filter_jobs shipped d [CACHED] = Some [3]
  /\ ~ jobs_agree shipped d CACHED.
Proof.
  exists witness. eexists. exists (mkJob 3 true (Some 10) (Some true)).
  split; [vm_compute; reflexivity|].
  split; [simpl; auto|]. split; [reflexivity|]. split; [vm_compute; reflexivity|].
  split; [vm_compute; reflexivity|].
  intros [res [H1 [_ [_ H4]]]]. vm_compute in H1. injection H1 as <-.
  specialize (H4 (mkJob 3 true (Some 10) (Some true))).
  assert (Hin : In (mkJob 3 true (Some 10) (Some true))
                   [mkJob 1 false None (Some false); mkJob 2 true (Some 10) (Some false);
                    mkJob 3 true (Some 10) (Some true)]) by (simpl; auto).
  apply H4 in Hin. destruct Hin as [Hin _]. specialize (Hin (or_introl eq_refl)).
  vm_compute in Hin. discriminate.
Qed.

(** Executions as shipped: refuted.  Execution 1 fails (root job 1, ErrorValue call node 10);
    execution 2 re-runs it: the root job's own evaluation is a cache hit, a child fails again,
    the root is recorded cached = true with the same error call node. *)
Definition witness_exec : list op :=
  [OStartJob 1 (Some 1); ORecordCallNode 10 20 err; OEndJob 1 None false 10;
   OStartJob 2 (Some 2); OEndJob 2 None true 10].

Theorem C33_execs_refuted : exists h d e,
  run empty_db h = Some d /\ In e (execs d) /\ e_id e = 2
  /\ exec_display shipped d e = DStatus FAILED
  /\ filter_execs shipped d [DONE] = Some [2]
  /\ ~ execs_agree shipped d DONE.
Proof.
  exists witness_exec. eexists. exists (mkExec 2 (Some 2)).
  split; [vm_compute; reflexivity|].
  split; [simpl; auto|]. split; [reflexivity|]. split; [vm_compute; reflexivity|].
  split; [vm_compute; reflexivity|].
  intros [res [H1 [_ [_ H4]]]]. vm_compute in H1. injection H1 as <-.
  specialize (H4 (mkExec 2 (Some 2))).
  assert (Hin : In (mkExec 2 (Some 2)) [mkExec 1 (Some 1); mkExec 2 (Some 2)]) by (simpl; auto).
  apply H4 in Hin. destruct Hin as [Hin _]. specialize (Hin (or_introl eq_refl)).
  vm_compute in Hin. discriminate.
Qed.

(** As shipped, what holds: on every recorded database every filter agrees with the display
    on all jobs that are not cached-and-failed (cached = true and displayed FAILED); such a job
    is returned exactly by the CACHED and the FAILED filter. *)
Theorem C33_jobs_shipped_partial : forall h d, run empty_db h = Some d -> forall s,
  exists res, filter_jobs shipped d [s] = Some res /\ NoDup res
    /\ (forall i, In i res -> exists j, In j (jobs d) /\ j_id j = i)
    /\ (forall j, In j (jobs d) -> ~ cached_failed shipped d j ->
          (In (j_id j) res <-> job_display shipped d j = DStatus s))
    /\ (forall j, In j (jobs d) -> cached_failed shipped d j ->
          (In (j_id j) res <-> s = CACHED \/ s = FAILED)).
Proof. intros h d R s. exact (jobs_shipped_partial d s (recorded_wf h d R)). Qed.

(** Executions as shipped: agreement for every execution whose root job is not
    cached-and-failed. *)
Theorem C33_execs_shipped_partial : forall h d, run empty_db h = Some d ->
  forall s, In s exec_status ->
  exists res, filter_execs shipped d [s] = Some res /\ NoDup res
    /\ (forall i, In i res -> exists e, In e (execs d) /\ e_id e = i)
    /\ (forall e j, In e (execs d) -> job_of d e = Some j -> ~ cached_failed shipped d j ->
          (In (e_id e) res <-> exec_display shipped d e = DStatus s)).
Proof. intros h d R s Hs. exact (execs_shipped_partial d s (recorded_wf h d R) Hs). Qed.

(** The finite check separates the two variants (this is what the tie lemma evaluates). *)
Theorem C33_check_separates : cfg_ok fixed = true /\ cfg_ok_jobs shipped = false
  /\ bad_jobs shipped reach_rows = [(ended_row true true, CACHED)]
  /\ bad_execs shipped reach_rows = [(ended_row true true, DONE)].
Proof. repeat split; vm_compute; reflexivity. Qed.

(** Non-vacuity: a history with two executions and all five kinds of job rows (running,
    done, failed, cached, CSE-failed) is accepted by [run], and the fixed filters return
    non-empty, different answers on it. *)
Definition sample : list op :=
  [OStartJob 1 (Some 1); OStartJob 2 None; OStartJob 3 None; OStartJob 4 None;
   ORecordCallNode 10 20 err; OEndJob 2 None false 10; OEndJob 3 None true 10;
   ORecordCallNode 11 21 "builtins.int"; OEndJob 4 None false 11;
   ORecordCallNode 12 22 "builtins.list"; OEndJob 1 None false 12;
   OStartJob 5 (Some 2); OEndJob 6 None true 11; OStartJob 7 None].

Example C33_nonvacuous : exists d,
  run empty_db sample = Some d /\ wfb d = true
  /\ filter_jobs fixed d [RUNNING] = Some [5; 7] /\ filter_jobs fixed d [CACHED] = Some [6]
  /\ filter_jobs fixed d [FAILED] = Some [2; 3] /\ filter_jobs fixed d [DONE] = Some [1; 4]
  /\ filter_jobs shipped d [CACHED] = Some [3; 6]
  /\ filter_execs fixed d [DONE] = Some [1] /\ filter_execs fixed d [RUNNING] = Some [2]
  /\ map (fun j => job_display fixed d j) (jobs d)
     = map DStatus [DONE; FAILED; FAILED; DONE; RUNNING; CACHED; RUNNING].
Proof.
  eexists. split; [vm_compute; reflexivity|].
  repeat (split; [vm_compute; reflexivity|]). vm_compute. reflexivity.
Qed.

Print Assumptions C33_recorded_wf.
Print Assumptions C33_checked_wf.
Print Assumptions C33_jobs_of_ok.
Print Assumptions C33_execs_of_ok.
Print Assumptions C33_jobs_fixed.
Print Assumptions C33_execs_fixed.
Print Assumptions C33_execs_cached_fixed.
Print Assumptions C33_jobs_refuted.
Print Assumptions C33_execs_refuted.
Print Assumptions C33_jobs_shipped_partial.
Print Assumptions C33_execs_shipped_partial.
Print Assumptions C33_check_separates.
Print Assumptions C33_nonvacuous.
