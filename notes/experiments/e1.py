import sys
sys.path.insert(0, "/repo")
from redun.tags import format_tag_value, parse_tag_value
for v in ["[abc", '"abc"', "{x", '"a', "1e5", "nan", "", "true", "a b", "[1]", '"a b"', "٣"]:
    try:
        f = format_tag_value(v)
        p = parse_tag_value(f)
        print(repr(v), "->", repr(f), "->", repr(p), "OK" if p == v else "MISMATCH")
    except Exception as e:
        print(repr(v), "RAISES", type(e).__name__, e)
