from redun import task
from redun.task import Task
redun_namespace = "e5"
def fn(x): return x
t1 = Task(fn, name="h", namespace="e5", hash_includes=["v1"])
t2 = Task(fn, name="h", namespace="e5", hash_includes=["v2"])
print("base differ:", t1.hash != t2.hash, "| options() differ:", t1.options(memory=1).hash != t2.options(memory=1).hash)
# wrapped task
from redun.task import wraps_task
def doubled():
    @wraps_task()
    def _doubled(inner):
        def do(*a, **k): return 2*inner.func(*a, **k)
        return do
    return _doubled
def mk(body):
    ns = {}
    exec(f"def vt(x):\n    return {body}\n", ns)
    import linecache
    return ns["vt"]
import inspect
@doubled()
@task(source="def vt(x): return x+1")
def vt(x): return x+1
w1, w1o = vt.hash, vt.options(memory=1).hash
@doubled()
@task(name="vt", source="def vt(x): return x+2")
def vt2(x): return x+2
w2, w2o = vt2.hash, vt2.options(memory=1).hash
print("wrapped differ:", w1 != w2, "| wrapped.options() differ:", w1o != w2o)
