from redun.config import Config
c = Config(); c.read_string("[a.b]\nx = cost $$5\ny = ${x} more\n[c]\nz=1\n")
dct = c.get_config_dict(); print("C35 dict:", dct)
try:
    c2 = Config(config_dict=dct); print(c2["a"]["b"]["x"])
except Exception as e:
    print("C35 roundtrip raises:", type(e).__name__, e)
