import os, sys, tempfile, time
from redun import Scheduler, task, File
from redun.config import Config
from redun.scheduler import catch
redun_namespace = "x2"
d = tempfile.mkdtemp()
p = os.path.join(d, "in.txt")

@task()
def reader(f):
    return f.read()

@task()
def rec(e):
    return "rec"

@task()
def ident(x):
    return x

@task()
def main1(path):
    return reader(File(path)) + "!"

@task()
def main2(path):
    return [reader(File(path))][0]

@task()
def main3(path):
    return {"k": reader(File(path))}

@task()
def main4(path):
    return catch(reader(File(path)), KeyError, rec)

@task()
def main5(path):
    return ident(reader(File(path)) + "!")

def mk(db):
    s = Scheduler(config=Config({"backend": {"db_uri": f"sqlite:///{db}"}})); s.load(); s.logger.disabled=True
    return s
for m in [main1, main2, main3, main4, main5]:
    open(p, "w").write("one")
    db = os.path.join(d, m.name + "r.db")
    r1 = mk(db).run(m(p))
    open(p, "w").write("twotwo")
    r2 = mk(db).run(m(p))
    r3 = mk(os.path.join(d, m.name+"f.db")).run(m(p))
    print(m.name, r1, r2, r3, "STALE" if r2 != r3 else "")
