# C07 sibling order: [use(h, slowarg()), use(h, fastarg())] under controlled completion orders
from redun import Scheduler, task, Handle
from redun.executors.base import Executor
from redun.backends.db import CallNode
redun_namespace = "e23"
class H(Handle):
    def __init__(self, name): pass
class Controlled(Executor):
    def __init__(self, name, order):
        super().__init__(name); self.held=[]; self.order=list(order)
    def submit(self, job): self.held.append(job)
    submit_script = submit
    def complete_one(self):
        if not self.held: return False
        # pick by task name preference
        pref = self.order.pop(0) if self.order else None
        idx = next((i for i,j in enumerate(self.held) if j.task.name==pref), 0)
        job = self.held.pop(idx); args, kwargs = job.args
        try: self._scheduler.done_job(job, job.task.func(*args, **kwargs))
        except Exception as e: self._scheduler.reject_job(job, e)
        return True
@task(cache=False)
def arg_a(): return 1
@task(cache=False)
def arg_b(): return 2
@task(cache=False)
def use(h, i): return i
@task(cache=False)
def main():
    h = H("hh")
    return [use(h, arg_a()), use(h, arg_b())]
def run(order):
    ex = Controlled("default", order)
    s = Scheduler(executor=ex); s.load()
    q = s.events_queue; og = q.get
    def get(timeout=None):
        if q.empty() and not ex.complete_one(): raise RuntimeError("deadlock")
        return og(timeout=timeout)
    q.get = get
    r = s.run(main())
    cns = sorted((c.task_name, c.args_hash[:8]) for c in s.backend.session.query(CallNode).all() if c.task_name.endswith("use"))
    return r, cns
x = run(["main","arg_a","arg_b"]); y = run(["main","arg_b","arg_a"])
print(x); print(y); print("same:", x==y)
