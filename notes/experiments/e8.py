import sys
from redun import Scheduler, task
from redun.scheduler import catch
from redun.task import Task, get_task_registry
redun_namespace = "e8"

def define(body):
    ns = {"task": task, "redun_namespace": "e8", "__name__": "__main__"}
    src = f"def divider(x):\n    {body}\n"
    exec(src, ns)
    return task(name="divider", namespace="e8", source=src)(ns["divider"])

@task()
def recover(err):
    return "recovered"

@task()
def main():
    return catch(divider_ref(0), ZeroDivisionError, recover)

s = Scheduler(); s.load()
d = define("return 1 / x")
divider_ref = d
print("run1:", s.run(main()))
d = define("return 'fixed'")
divider_ref = d
print("run2 (edited divider, same backend):", s.run(main()))
s2 = Scheduler(); s2.load()
print("run2 fresh backend:", s2.run(main()))
