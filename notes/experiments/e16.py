from redun import Scheduler, Handle
redun_namespace = "e16"
class H(Handle):
    def __init__(self, name): pass
s = Scheduler(); s.load(); b = s.backend
from redun.scheduler import set_current_scheduler
set_current_scheduler(s)
h0 = H("h")
h1 = h0.apply_call("c1"); b.advance_handle([h0], h1)
h2 = h1.apply_call("c2"); b.advance_handle([h1], h2)
h3 = h2.apply_call("c3"); b.advance_handle([h2], h3)
v = lambda: [b.is_valid_handle(x) for x in (h0,h1,h2,h3)]
print("chain:", v())
b.rollback_handle(h1); print("rollback to h1:", v())
b.rollback_handle(h0); print("rollback to h0 (h2,h3 already invalid, h1 valid):", v())
b.advance_handle([h0], h1); print("re-derive h1:", v())
b.advance_handle([h1], h2); print("re-derive h2:", v())
b.rollback_handle(h0); print("rollback to h0 again:", v())
# now h3 is invalid; h2 invalid; re-derive h1,h2; is h3 (descendant of h2) still invalid? yes must be. then rollback h1: must invalidate h2 only
b.advance_handle([h0], h1); b.advance_handle([h1], h2); print("re-derive h1,h2:", v())
b.advance_handle([h2], h3); print("re-derive h3:", v())
b.rollback_handle(h1); print("rollback h1:", v())
b.advance_handle([h2], h3)  # advance from an INVALID parent h2: h3 becomes valid while parent invalid
print("advance from invalid parent:", v())
b.rollback_handle(h0); print("rollback h0 (h1 valid->invalid; h2 invalid so not traversed; h3 valid behind it):", v())
