# C03/C22: transient OperationalError at the final commit of record_call_node -> subtree rows lost -> shallow hit ignores code change
import os, sys
import tempfile; os.chdir(tempfile.mkdtemp(prefix="redun_exp_"))
from redun import Scheduler, task
from redun.config import Config
from redun.backends.db import CallNode, CallSubtreeTask, RedunBackendDb
from sqlalchemy.exc import OperationalError
import redun.backends.db as dbmod
redun_namespace = "e12"

def define(body):
    ns = {"__name__": "__main__"}
    src = f"def leaf(x):\n    return {body}\n"
    exec(src, ns)
    return task(name="leaf", namespace="e12", source=src)(ns["leaf"])

@task(check_valid="shallow")
def top(x):
    return leaf_ref(x)

def mk():
    s = Scheduler(config=Config({"backend": {"db_uri": "sqlite:///redun.db", "db_retries": "3", "db_retries_backoff": "0.001"}}))
    s.load()
    return s

leaf_ref = define("x + 1")
s = mk()
# inject: fail the LAST commit inside record_call_node for task 'top' once
sess_cls = type(s.backend.session)
orig_commit = sess_cls.commit
state = {"armed": False, "fired": 0}
orig_rcn = RedunBackendDb.record_call_node.__wrapped__ if hasattr(RedunBackendDb.record_call_node, "__wrapped__") else None
def commit(self):
    if state["armed"]:
        # count pending CallSubtreeTask in session.new => this is the final commit
        if sum(isinstance(o, CallSubtreeTask) for o in self.new) == 2 and state["fired"] == 0:
            state["fired"] += 1
            raise OperationalError("commit", {}, Exception("transient"))
    return orig_commit(self)
sess_cls.commit = commit
state["armed"] = True
print("run1:", s.run(top(1)))
state["armed"] = False
sess = s.backend.session
for cn in sess.query(CallNode).all():
    n = sess.query(CallSubtreeTask).filter_by(call_hash=cn.call_hash).count()
    print("  callnode", cn.task_name, "subtree rows:", n)
print("fired:", state["fired"])
# edit leaf, rerun with shallow
leaf_ref = define("x + 100")
s2 = mk()
print("run2 after editing leaf (same backend):", s2.run(top(1)))
