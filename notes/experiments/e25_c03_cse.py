# C03 candidate: backend-CSE hit child (final result, no child jobs) -> parent's subtree set misses grandchildren
import os, sys, tempfile; os.chdir(tempfile.mkdtemp(prefix="redun_exp_"))
from redun import Scheduler, task
from redun.config import Config
from redun.backends.db import CallNode, CallSubtreeTask
redun_namespace = "ec"
def define(body):
    ns = {"__name__": "__main__"}
    src = f"def leaf(x):\n    return {body}\n"
    exec(src, ns)
    return task(name="leaf", namespace="ec", source=src)(ns["leaf"])
@task()
def mid(x):
    return leaf_ref(x)
@task()
def a(x):
    return mid(x)
@task(check_valid="shallow")
def p(x, dep):
    return mid(x)
@task()
def const0(r):
    return 0
@task()
def main(x):
    r = a(x)
    return [r, p(x, const0(r))]
def mk():
    s = Scheduler(config=Config({"backend": {"db_uri": "sqlite:///redun.db"}}))
    s.load(); return s
leaf_ref = define("x + 1")
s = mk()
print("run1:", s.run(main(1)))
sess = s.backend.session
for cn in sess.query(CallNode).all():
    rows = sess.query(CallSubtreeTask).filter_by(call_hash=cn.call_hash).all()
    print("  callnode", cn.task_name, "subtree rows:", len(rows))
leaf_ref = define("x + 100")
s2 = mk()
print("run2 after editing leaf:", s2.run(main(1)))
os.remove("redun.db") if os.path.exists("redun.db") else None
import shutil; shutil.rmtree(".redun", ignore_errors=True)
s3 = Scheduler(config=Config({"backend": {"db_uri": "sqlite:///fresh.db"}})); s3.load()
print("fresh:", s3.run(main(1)))
