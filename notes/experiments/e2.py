import sys, threading, time
from redun import Scheduler, task
from redun.scheduler import catch
from redun.config import Config

redun_namespace = "e2"
running = 0
maxrun = 0
lock = threading.Lock()

@task(limits=["res"], cache=False)
def leaf_fail():
    raise ValueError("boom")

@task(cache=False)
def child_fail():
    raise ValueError("boom")

@task(limits=["res"], cache=False)
def parent():
    # holds res, returns failing child expr
    return child_fail()

@task(cache=False)
def recover(err):
    return 0

@task(limits=["res"], cache=False)
def work(i):
    global running, maxrun
    with lock:
        running += 1
        maxrun = max(maxrun, running)
    time.sleep(0.2)
    with lock:
        running -= 1
    return i

@task(cache=False)
def main():
    a = catch(parent(), ValueError, recover)
    return phase2(a)

@task(cache=False)
def phase2(a):
    return [work(i) for i in range(4)]

s = Scheduler(config=Config({"limits": {"res": "1"}}))
s.load()
print(s.run(main()))
print("limits_used", dict(s.limits_used), "max concurrent", maxrun)
