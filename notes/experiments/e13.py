from redun import Scheduler, task
from redun.scheduler import catch
from redun.functools import seq
from redun.backends.db import Job
from redun.backends.db.query import CallGraphQuery
redun_namespace = "e13"
n = {"bad": 0}
@task()
def bad(x):
    n["bad"] += 1
    raise ValueError("x")
@task()
def rec(e): return 0
@task()
def p1(): return bad(1)
@task()
def p2(): return bad(1)
@task()
def main():
    return seq([catch(p1(), ValueError, rec), catch(p2(), ValueError, rec)])
s = Scheduler(); s.load(); print(s.run(main()), "bad executed", n["bad"])
sess = s.backend.session
jobs = sess.query(Job).all()
disp = {j.id: (j.status, j.task.name, j.cached) for j in jobs}
print(sorted(v for v in disp.values()))
for st in ["RUNNING","CACHED","FAILED","DONE"]:
    q = CallGraphQuery(sess).filter_types(["Job"]).filter_job_statuses([st])
    got = {j.id for j in q.all()}
    want = {i for i,v in disp.items() if v[0] == st}
    print(st, "filter==display:", got == want, "extra:", [disp[i] for i in got-want], "missing:", [disp[i] for i in want-got])
# second execution: error must re-execute (C12)
s2 = Scheduler(backend=s.backend); 
print(s2.run(main()), "bad executed total", n["bad"])
