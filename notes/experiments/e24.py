import time, threading, sys
from redun import task, Scheduler
from redun.config import Config

redun_namespace = "dl"

@task(limits={"r": 1}, cache=False)
def x():
    time.sleep(0.6)
    return "x"

@task(limits={"r": 1})
def a(i):
    time.sleep(0.05)
    return ("a", i)

@task(limits={"r": 1})
def b():
    return "b"

@task()
def p1():
    return a(1)

@task()
def p2():
    time.sleep(0.05)
    return a(1)

@task()
def p3():
    time.sleep(0.2)
    return b()

@task()
def main():
    return [x(), p1(), p2(), p3()]


import signal, os
sched = Scheduler(config=Config({"backend": {"db_uri": "sqlite:///t.db"}, "limits": {"r": "1"}}))
sched.load()
def onalarm(*a):
    print("DEADLOCK: still running after 8s; pending limits:", [(j.task.name) for j, _ in sched._jobs_pending_limits], "limits_used", dict(sched.limits_used), "queue empty", sched.events_queue.empty())
    os._exit(3)
signal.signal(signal.SIGALRM, onalarm)
signal.alarm(8)
print("finished", sched.run(main()))
