from redun import Scheduler, task
from redun.scheduler import DryRunResult, cond, catch
from redun.functools import seq
from redun.backends.db import CallNode, Argument, ArgumentResult
redun_namespace = "e22"
calls = []
@task()
def a(x): calls.append(("a",x)); return x+1
@task()
def b(x): calls.append(("b",x)); return {"k": [x, x*2]}
@task()
def c(x, y=5): calls.append(("c",x,y)); return x+y
@task()
def pick(): calls.append(("pick",)); return True
@task()
def main(n):
    r = b(a(n))
    return c(r["k"][1], y=cond(pick(), a(n), 0))
s = Scheduler(); s.load()
# C28: dry run on empty backend
try:
    print("dry empty:", s.run(main(1), dryrun=True))
except DryRunResult: print("dry empty: DryRunResult; calls", calls)
print("real:", s.run(main(1)), len(calls))
n0=len(calls)
print("dry full:", s.run(main(1), dryrun=True), "new calls", len(calls)-n0)
try:
    print("dry new arg:", s.run(main(2), dryrun=True))
except DryRunResult: print("dry new arg: DryRunResult; new calls", len(calls)-n0)
# C21: upstreams of c's args
sess = s.backend.session
cn = {c_.call_hash: c_.task_name for c_ in sess.query(CallNode).all()}
for arg in sess.query(Argument).all():
    if cn.get(arg.call_hash) == "e22.c":
        ups = sorted(cn[r.result_call_hash] for r in arg.arg_results)
        print("c arg", arg.arg_position, arg.arg_key, arg.value_parsed, "upstream:", ups)
