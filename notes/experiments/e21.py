import random, dataclasses, collections
from redun.utils import map_nested_value, iter_nested_value
from redun.task import Task, TaskRegistry
random.seed(2)
# C19 quick: leaves vs map
NT = collections.namedtuple("NT", "a b")
@dataclasses.dataclass
class DC:
    x: object
    y: object = dataclasses.field(default=None, init=False)
def gen(d):
    if d==0 or random.random()<.3: return random.randint(0,50)
    k=random.choice("ltnsdD")
    if k=="l": return [gen(d-1) for _ in range(random.randint(0,3))]
    if k=="t": return tuple(gen(d-1) for _ in range(random.randint(0,3)))
    if k=="n": return NT(gen(d-1), gen(d-1))
    if k=="s": return {random.randint(0,50) for _ in range(random.randint(0,3))}
    if k=="d": return {random.randint(0,50): gen(d-1) for _ in range(random.randint(0,3))}
    o=DC(gen(d-1)); o.y=gen(d-1); return o
bad=0
for t in range(3000):
    v=gen(4)
    leaves=sorted(iter_nested_value(v))
    seen=[]
    m=map_nested_value(lambda x:(seen.append(x), x+1000)[1], v)
    if sorted(seen)!=leaves: bad+=1; print("C19 leaves mismatch", v); break
    if sorted(iter_nested_value(m))!=[x+1000 for x in leaves]: bad+=1; print("C19 map mismatch", v, m); break
    if type(m)!=type(v): bad+=1; print("type"); break
print("C19 mismatches", bad)
# C37 registry random ops
def fn(x): return x
def check(reg):
    hs = {t.hash for t in reg._tasks.values()}
    ok = reg.task_hashes == hs and all(reg._tasks[n].fullname==n for n in reg._tasks)
    cnt = collections.Counter(t.hash for t in reg._tasks.values())
    return ok and dict(reg._task_hash_counts)==dict(cnt)
bad=0
for t in range(2000):
    reg=TaskRegistry(); ops=[]
    for i in range(random.randint(1,7)):
        op=random.choice(["def","ren"])
        if op=="def":
            name=random.choice("ab"); src=random.choice(["s1","s2"]); ns=random.choice(["","n"])
            reg.add(Task(fn,name=name,namespace=ns or None,source=src)); ops.append((op,name,ns,src))
        elif reg._tasks:
            old=random.choice(list(reg._tasks)); nn=random.choice("ab"); nns=random.choice(["","n","n.w"])
            reg.rename(old,new_namespace=nns,new_name=nn); ops.append((op,old,nns,nn))
        if not check(reg): bad+=1; print("C37 BAD", ops); break
    if bad: break
print("C37 mismatches", bad)
