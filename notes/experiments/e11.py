# C33: CSE-failed job: displayed status vs filter; C24 re-add after delete; C25
from redun import Scheduler, task
from redun.scheduler import catch
from redun.backends.db import Job, Execution
from redun.backends.db.query import CallGraphQuery
from redun.backends.base import TagEntity
redun_namespace = "e11"
@task()
def bad(x): raise ValueError("x")
@task()
def rec(e): return 0
@task()
def main():
    return [catch(bad(1), ValueError, rec), catch(bad(1), ValueError, rec), catch(bad(1), ValueError, rec)]
s = Scheduler(); s.load(); print(s.run(main()))
sess = s.backend.session
jobs = sess.query(Job).all()
disp = {j.id: j.status for j in jobs}
for st in ["RUNNING","CACHED","FAILED","DONE"]:
    q = CallGraphQuery(sess).filter_types(["Job"]).filter_job_statuses([st])
    got = {j.id for j in q.all()}
    want = {i for i,v in disp.items() if v == st}
    print(st, "filter==display:", got == want, len(got), len(want))
b = s.backend
eid = jobs[0].id
b.record_tags(TagEntity.Job, eid, [("k", 1)], new=True); print(dict(b.get_tags([eid])[eid].as_dict()))
b.delete_tags(eid, [("k", 1)]); print(b.get_tags([eid]))
b.record_tags(TagEntity.Job, eid, [("k", 1)], new=True); print("re-add:", b.get_tags([eid]))
b.record_tags(TagEntity.Job, eid, [("k", 1)], new=True); print("add again:", b.get_tags([eid]))
b.record_tags(TagEntity.Job, eid, [("k", 2)], new=True); 
b.record_tags(TagEntity.Job, eid, [("k", 1)], update=True); print("update k=1 from {1,2}:", b.get_tags([eid]))
b.record_tags(TagEntity.Job, eid, [("k", 1)], new=True); print("add k=1 after update:", b.get_tags([eid]))
