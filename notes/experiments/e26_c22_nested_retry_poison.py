import os, tempfile, shutil, traceback
from harness.props.recording_lib import *
quiet()
d = tempfile.mkdtemp(prefix="rv_c03_"); os.chdir(d)
db = fresh_db(d, "x.db")
expr, ns = define_workload("chain", LEAF_V1["chain"])
s = make_scheduler(db)
f = Fates(s.backend); f.record_sites=True; f.set([FOK]*47+[FFAIL])
try:
    print(s.run(expr))
except Exception as e:
    tb = traceback.format_exc().splitlines()
    print("\n".join(l for l in tb if "redun/" in l or "Error" in l)[-1500:])
print([x for x in f.log if x[0]>=40])
from redun.backends.db import *
b = new_backend(db)
ss = b.session
cns = {c.call_hash: c.task_name for c in ss.query(CallNode)}
print(sorted(cns.values()))
for a in ss.query(Argument):
    print("arg", a.call_hash[:8], cns.get(a.call_hash), a.arg_position)
for j in ss.query(Job): print("job", j.task.name if j.task else None, j.call_hash and j.call_hash[:8], cns.get(j.call_hash))
shutil.rmtree(d); cleanup_template(); cleanup_workloads()
