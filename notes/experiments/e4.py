from redun import task
from redun.task import hash_args_eval, wraps_task, Task
from redun.value import get_type_registry
from redun.scheduler import cond, catch
redun_namespace = "e4"
reg = get_type_registry()

@task(config_args=["cfg"])
def f(a, *rest, cfg=None):
    return a
print("C15 variadic:", hash_args_eval(reg, f, (1,2,3), {})[0] == hash_args_eval(reg, f, (1,2,4), {})[0])

@task(config_args=["b"])
def g(a, b, *rest):
    return a
print("C15 plain positional config:", hash_args_eval(reg, g, (1,2,3), {})[0] == hash_args_eval(reg, g, (1,5,3), {})[0],
      hash_args_eval(reg, g, (1,2,3), {})[0] == hash_args_eval(reg, g, (1,2,4), {})[0])

# C17: options() drops hash_includes
@task(hash_includes=["v1"])
def h1(x): return x
a = h1.options(memory=1).hash
@task(name="h1", hash_includes=["v2"])
def h1b(x): return x
b = h1b.options(memory=1).hash
print("C17 base hashes differ:", h1.hash != h1b.hash, " options() hashes differ:", a != b)

# C18
e1 = cond.options(cache_scope="NONE")(True, 1, 2)
e2 = cond(True, 1, 2)
print("C18 sched expr options differ, hashes same:", e1.get_hash() == e2.get_hash(), e1._options, e2._options)
e3 = f.options(memory=1)(1)
e4 = f(1)
print("C18 task expr options differ, hashes same:", e3.get_hash() == e4.get_hash())
