from redun import Scheduler, task
from redun.context import get_context
from redun.functools import seq
redun_namespace = "e3"

@task()
def show():
    return get_context("x", "none")

@task()
def main_ctx_first():
    return seq([show.update_context(x=1)(), show()])

@task()
def main_plain_first():
    return seq([show(), show.update_context(x=1)()])

for m in (main_ctx_first, main_plain_first):
    s = Scheduler(); s.load()
    print(m.name, s.run(m()))
