import os, threading, time
import tempfile; os.chdir(tempfile.mkdtemp(prefix="redun_exp_"))
from redun import Scheduler
from redun.config import Config
from redun.executors.docker import DockerExecutor
cfg = Config({"executors.d": {"type": "docker", "image": "img", "scratch": "scratch", "interval": "0.01"}})
s = Scheduler(config=cfg)
ex = s.executors["d"]
gate_reached = threading.Event(); gate_release = threading.Event()
orig_log = ex.log
def log(msg, *a, **k):
    if str(msg).startswith("Shutting down"):
        gate_reached.set(); gate_release.wait()
ex.log = log
# monitor thread starts with nothing pending: loop guard false, proceeds to 'Shutting down' (flag still True)
ex._start()
gate_reached.wait()
# scheduler thread: last two statements of _submit()
ex._pending_jobs["container1"] = object()
ex._start()
gate_release.set()
ex._thread.join()
time.sleep(0.05)
print("is_running:", ex._is_running, "monitor alive:", ex._thread.is_alive(), "pending (lost):", list(ex._pending_jobs))
