import os, random, subprocess, itertools
import tempfile; os.chdir(tempfile.mkdtemp(prefix="redun_exp_"))
from redun.scripting import get_wrapped_command, prepare_command, get_command_eof
from redun.utils import merge_dicts, map_nested_value, iter_nested_value
from redun.context import get_context_value
random.seed(1)
# C29: heredoc exactness
bad=0
lines_pool=["EOF","EOF1","EOF2","echo $HOME","a 'q' \"d\"","`x`","\\","  EOF","EOF ","$(ls)","#!/bin/sh","\t","é"]
for t in range(150):
    cmd="\n".join(random.choice(lines_pool) for _ in range(random.randint(1,6)))
    w=get_wrapped_command(cmd)
    # replace execution by cat: emulate "Save command to temp file" part only
    script=w.replace('chmod +x "$COMMAND_FILE"\n"$COMMAND_FILE"\nRETCODE=$?','cat "$COMMAND_FILE"\nRETCODE=0')
    out=subprocess.run(["sh","-c",script],capture_output=True).stdout
    if out!= (cmd+"\n").encode(): bad+=1; print("C29 MISMATCH", repr(cmd), repr(out)); break
print("C29 heredoc mismatches:", bad)
# C26 merge_dicts vs spec
def spec_merge(a,b):
    if isinstance(a,dict) and isinstance(b,dict):
        r=dict(a)
        for k,v in b.items(): r[k]=spec_merge(a[k],v) if k in a else v
        return r
    return b
def gen(d):
    if d==0 or random.random()<.3: return random.choice([1,"s",None,[1],{}])
    return {random.choice("abc"): gen(d-1) for _ in range(random.randint(0,3))}
bad=0
for t in range(3000):
    ds=[gen(3) for _ in range(random.randint(1,4))]
    if not all(isinstance(x,dict) for x in ds): ds=[x if isinstance(x,dict) else {} for x in ds]
    exp=ds[0]
    for x in ds[1:]: exp=spec_merge(exp,x)
    got=merge_dicts(ds)
    if got!=exp: bad+=1; print("C26 MISMATCH",ds,got,exp); break
print("C26 merge mismatches:", bad)
