import sys, time
from redun import Scheduler, task, Handle
from redun.config import Config
redun_namespace = "e7"

class H(Handle):
    def __init__(self, name, n=0):
        self.n = n

@task(limits=["res"], cache=False)
def use(h, i):
    time.sleep(0.05)
    return i

@task(cache=False)
def main():
    h = H("hh", 0)
    return [use(h, 1), use(h, 2)]

def run(limit):
    s = Scheduler(config=Config({"limits": {"res": str(limit)}}))
    s.load()
    r = s.run(main())
    sess = s.backend.session
    from redun.backends.db import CallNode, Argument
    cns = sorted((c.task_name, c.args_hash[:8]) for c in sess.query(CallNode).all())
    return r, cns
a = run(2)
b = run(1)
print(a); print(b); print("same call graph:", a == b)
