import time
from collections import defaultdict
from redun.job_array import JobArrayer
class J:
    class T: 
        script=False
        def __init__(s,n): s.fullname=n
    def __init__(s,n,opts=None): s.task=J.T(n); s._o=opts or {}
    def get_options(s): return s._o
errs=[]; subs=[]
a = JobArrayer(lambda jobs: subs.append(list(jobs)), errs.append, submit_interval=1000, stale_time=-1, min_array_size=2)
a.start = lambda: None   # no real monitor thread; we drive the monitor body by hand
a.add_job(J("t1"))
# preemption point: inside get_stale_descrs between reading pending_timestamps for one key and the next dict-iteration step
class TS(dict):
    fired=False
    def __getitem__(s,k):
        v = dict.__getitem__(s,k)
        if not TS.fired:
            TS.fired=True
            a.add_job(J("t2"))      # adder thread runs here
        return v
a.pending_timestamps = TS(a.pending_timestamps)
try:
    stales = a.get_stale_descrs()
    print("stales", stales)
except Exception as e:
    print("monitor body raises:", type(e).__name__, e)
