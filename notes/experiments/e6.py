import subprocess, sys
code = r'''
import sys
sys.path.insert(0,"/repo")
from redun.value import get_type_registry
r = get_type_registry()
print(r.get_hash({"a","b","c","d"}), r.get_hash([{"a","b","c","d"}]), r.get_hash(frozenset({"a","b","c","d"})), r.get_hash({"k": {"a","b","c"}}))
'''
outs=set()
for seed in ["0","1","2","3"]:
    o = subprocess.run(["/venv/bin/python","-c",code], env={"PYTHONHASHSEED":seed}, capture_output=True, text=True).stdout.split()
    print(seed, [h[:8] for h in o])
