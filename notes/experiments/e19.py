# Feasibility: deterministic thread scheduler via sys.settrace line events + per-thread semaphores.
import sys, threading, time
from redun.job_array import JobArrayer
import redun.job_array as ja

class DetSched:
    """One controlled thread runs at a time; control is handed over at line events in target files."""
    def __init__(self, files):
        self.files = set(files); self.sems = {}; self.order = []; self.alive = {}
        self.ctl = threading.Semaphore(0); self.trace_log = []
    def _trace(self, frame, event, arg):
        if frame.f_code.co_filename not in self.files: return None
        return self._local
    def _local(self, frame, event, arg):
        if event == "line":
            name = threading.current_thread().name
            self.trace_log.append((name, frame.f_code.co_name, frame.f_lineno))
            self.ctl.release()            # yield to controller
            self.sems[name].acquire()     # wait for my turn
        return self._local
    def spawn(self, name, fn):
        self.sems[name] = threading.Semaphore(0); self.alive[name] = True
        def body():
            sys.settrace(self._trace)
            self.sems[name].acquire()
            try: fn()
            finally:
                sys.settrace(None); self.alive[name] = False; self.ctl.release()
        t = threading.Thread(target=body, name=name, daemon=True); t.start(); return t
    def step(self, name):
        if not self.alive[name]: return False
        self.sems[name].release(); self.ctl.acquire(); return True

class J:
    class T:
        script=False
        def __init__(s,n): s.fullname=n
    def __init__(s,n): s.task=J.T(n)
    def get_options(s): return {}

def trial(schedule):
    errs=[]; subs=[]
    a = JobArrayer(lambda jobs: subs.append([j.task.fullname for j in jobs]), errs.append, 1000, -1, 2)
    a.start = lambda: None
    a.add_job(J("t1"))
    ds = DetSched([ja.__file__])
    def monitor_body():
        try:
            for d in a.get_stale_descrs(): a.submit_pending_jobs(d)
        except Exception as e: errs.append(e)
    ds.spawn("M", monitor_body); ds.spawn("A", lambda: a.add_job(J("t2")))
    for who in schedule:
        ds.step(who)
    # drain
    for who in ("M","A"):
        while ds.step(who): pass
    return subs, [type(e).__name__ for e in errs], a.num_pending, len(ds.trace_log)
print(trial("MMMMMMMMMMMMMMMMMMMMAAAAAAAAAAAA"))
print(trial("AAAAAAAAAAAAAAAAMMMMMMMMMMMMMMMM"))
# line-level preemption inside the comprehension is not possible (one line) -> need opcode events there
print(trial("MMMAAAAAAAAAAAAAAAAAMMMMMMMMMMMMM"))
