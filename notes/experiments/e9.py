import os, time
import tempfile; os.chdir(tempfile.mkdtemp(prefix="redun_exp_"))
from redun.file import File, Dir, ContentFile, ContentDir
from redun.config import Config
# C30 Dir.copy_to stale hash
os.makedirs("src"); open("src/a.txt","w").write("hello")
d = Dir("dst"); h0 = d.hash
Dir("src").copy_to(d)
print("C30 Dir.copy_to hash fresh:", d.hash == Dir("dst").hash)
f = File("x.txt"); f.write("a"); print("C30 File.write fresh:", f.hash == File("x.txt").hash)
# C04/C30 ContentFile missing
try:
    print("ContentFile missing hash:", ContentFile("nope.txt").hash[:8])
except Exception as e:
    print("C30 ContentFile missing raises:", type(e).__name__)
cf = ContentFile("c.txt"); cf.write("abc"); os.remove("c.txt")
try:
    print("is_valid after delete:", cf.is_valid())
except Exception as e:
    print("C04 ContentFile.is_valid after delete raises:", type(e).__name__)
# ContentDir mtime sensitivity
os.makedirs("cd"); open("cd/a","w").write("x")
h1 = ContentDir("cd").hash; os.utime("cd/a",(1,1)); h2 = ContentDir("cd").hash
print("C30 ContentDir hash unchanged after touch:", h1 == h2)
# C35
c = Config(); c.read_string("[a.b]\nx = cost $$5\ny = ${x} more\n[a]\nz=1\n")
dct = c.get_config_dict(); print("C35 dict:", dct)
try:
    c2 = Config(config_dict=dct); print("C35 roundtrip:", {k: dict(v) for k,v in c2.get_config_dict().items()} == dct, c2["a"]["b"]["x"])
except Exception as e:
    print("C35 roundtrip raises:", type(e).__name__, e)
