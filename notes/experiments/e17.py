from redun.promise import Promise
log=[]
p = Promise()
def A(v):
    log.append("A"); p.then(lambda v: log.append("C"))
p.then(A); p.then(lambda v: log.append("B"))
p.do_resolve(1)
print("registered A,B,C(in A); ran:", log)
# re-entrant settle: callback of p resolves q which has callbacks; exactly-once?
log=[]
p=Promise(); q=Promise()
q.then(lambda v: log.append(("q1",v)))
p.then(lambda v: (q.do_resolve(v+1), q.do_resolve(99))[0])
p.then(lambda v: log.append(("p2",v)))
p.do_resolve(1); p.do_resolve(5); p.do_reject(Exception("x"))
print(log, p.value, q.value)
# callback raising inside all()
a=Promise(); b=Promise()
al = Promise.all([a,b]); res=[]
al.then(lambda v: res.append(("ok",v)), lambda e: res.append(("err",str(e))))
b.do_reject(ValueError("b")); a.do_reject(ValueError("a")); print(res)
