# Feasibility: controlled executor that holds submitted jobs and completes them in a chosen order,
# driven from inside the scheduler's own event loop (no threads, no sleeps).
import itertools, sys
from redun import Scheduler, task
from redun.executors.base import Executor
from redun.config import Config
redun_namespace = "e18"

class Controlled(Executor):
    def __init__(self, name, order):
        super().__init__(name)
        self.held = []; self.order = list(order); self.log = []
    def submit(self, job):
        self.held.append(job); self.log.append(("submit", job.task.name, job.args_hash[:6]))
    submit_script = submit
    def complete_one(self):
        if not self.held: return False
        i = self.order.pop(0) % len(self.held) if self.order else 0
        job = self.held.pop(i)
        args, kwargs = job.args
        try:
            r = job.task.func(*args, **kwargs)
            self._scheduler.done_job(job, r)
        except Exception as e:
            self._scheduler.reject_job(job, e)
        self.log.append(("complete", job.task.name))
        return True

@task(limits=["r"])
def leaf(i): return i
@task()
def main(): return [leaf(i) for i in range(3)] + [leaf(0)]

def run(order, limit):
    ex = Controlled("default", order)
    s = Scheduler(config=Config({"limits": {"r": str(limit)}}), executor=ex)
    s.load()
    # patch queue.get: when the events queue is empty, let the controlled executor complete one job
    q = s.events_queue; orig_get = q.get
    def get(timeout=None):
        if q.empty():
            if not ex.complete_one():
                raise RuntimeError("QUIESCENT with pending workflow (deadlock)")
        return orig_get(timeout=timeout)
    q.get = get
    r = s.run(main())
    return r, [e for e in ex.log if e[0]=="submit"]
for order in [(0,0,0,0),(2,1,0,0),(1,1,0,0)]:
    for limit in (1,3):
        print(order, limit, run(order, limit))
